// wirefacts: syn-based extractor of binrw declarations and macro invocations from the source tree.
// binrw attributes are consumed by the macro and are gone after expansion, so they are read from source.
// Output: one JSON document on stdout. No judgement here; the Python rule layer interprets directives.
use proc_macro2::{Delimiter, TokenStream, TokenTree};
use quote::ToTokens;
use std::fmt::Write as _;
use syn::visit::Visit;

fn js(s: &str) -> String {
    let mut o = String::with_capacity(s.len() + 2);
    o.push('"');
    for c in s.chars() {
        match c {
            '"' => o.push_str("\\\""),
            '\\' => o.push_str("\\\\"),
            '\n' => o.push_str("\\n"),
            '\r' => o.push_str("\\r"),
            '\t' => o.push_str("\\t"),
            c if (c as u32) < 0x20 => {
                let _ = write!(o, "\\u{:04x}", c as u32);
            }
            c => o.push(c),
        }
    }
    o.push('"');
    o
}

// nested token list: strings for leaf tokens, {"g":"(", "t":[..]} for groups
fn toks_json(ts: TokenStream) -> String {
    let mut o = String::from("[");
    let mut first = true;
    let mut pending_punct = String::new();
    let flush = |o: &mut String, first: &mut bool, p: &mut String| {
        if !p.is_empty() {
            if !*first {
                o.push(',');
            }
            *first = false;
            o.push_str(&js(p));
            p.clear();
        }
    };
    for tt in ts {
        match tt {
            TokenTree::Punct(p) => {
                pending_punct.push(p.as_char());
                if p.spacing() == proc_macro2::Spacing::Alone {
                    flush(&mut o, &mut first, &mut pending_punct);
                }
                continue;
            }
            _ => flush(&mut o, &mut first, &mut pending_punct),
        }
        if !first {
            o.push(',');
        }
        first = false;
        match tt {
            TokenTree::Group(g) => {
                let d = match g.delimiter() {
                    Delimiter::Parenthesis => "(",
                    Delimiter::Brace => "{",
                    Delimiter::Bracket => "[",
                    Delimiter::None => "",
                };
                let _ = write!(o, "{{\"g\":{},\"t\":{}}}", js(d), toks_json(g.stream()));
            }
            TokenTree::Ident(i) => o.push_str(&js(&i.to_string())),
            TokenTree::Literal(l) => {
                let _ = write!(o, "{{\"lit\":{}}}", js(&l.to_string()));
            }
            TokenTree::Punct(_) => unreachable!(),
        }
    }
    flush(&mut o, &mut first, &mut pending_punct);
    o.push(']');
    o
}

fn attr_json(a: &syn::Attribute) -> String {
    let name = a.path().to_token_stream().to_string().replace(' ', "");
    let line = a.pound_token.span.start().line;
    let toks = match &a.meta {
        syn::Meta::Path(_) => "[]".to_string(),
        syn::Meta::List(l) => toks_json(l.tokens.clone()),
        syn::Meta::NameValue(nv) => toks_json(nv.value.to_token_stream()),
    };
    format!("{{\"name\":{},\"line\":{},\"t\":{}}}", js(&name), line, toks)
}

fn attrs_json(attrs: &[syn::Attribute]) -> String {
    let v: Vec<String> = attrs.iter().filter(|a| !a.path().is_ident("doc")).map(attr_json).collect();
    format!("[{}]", v.join(","))
}

fn is_cfg_test(attrs: &[syn::Attribute]) -> bool {
    attrs.iter().any(|a| a.path().is_ident("cfg") && a.meta.to_token_stream().to_string().replace(' ', "").contains("cfg(test)"))
}

fn fields_json(fields: &syn::Fields) -> String {
    let mut v = vec![];
    for (i, f) in fields.iter().enumerate() {
        let name = f.ident.as_ref().map(|x| x.to_string()).unwrap_or(format!("{}", i));
        let vis = matches!(f.vis, syn::Visibility::Public(_));
        let line = f.ty.to_token_stream().into_iter().next().map(|t| t.span().start().line).unwrap_or(0);
        v.push(format!(
            "{{\"name\":{},\"ty\":{},\"tyt\":{},\"pub\":{},\"line\":{},\"attrs\":{}}}",
            js(&name),
            js(&f.ty.to_token_stream().to_string()),
            toks_json(f.ty.to_token_stream()),
            vis,
            line,
            attrs_json(&f.attrs)
        ));
    }
    format!("[{}]", v.join(","))
}

struct V {
    file: String,
    modpath: Vec<String>,
    items: Vec<String>,
    fns: Vec<String>,
    cur_fn: Vec<(String, usize, Vec<String>, Vec<String>)>, // name, line, macros, literals
    impl_self: Vec<String>,
}

impl V {
    fn qual(&self, n: &str) -> String {
        let mut p = self.modpath.clone();
        p.push(n.to_string());
        p.join("::")
    }
}

impl<'ast> Visit<'ast> for V {
    fn visit_item_mod(&mut self, i: &'ast syn::ItemMod) {
        if is_cfg_test(&i.attrs) {
            return;
        }
        self.modpath.push(i.ident.to_string());
        syn::visit::visit_item_mod(self, i);
        self.modpath.pop();
    }
    fn visit_item_struct(&mut self, i: &'ast syn::ItemStruct) {
        if is_cfg_test(&i.attrs) {
            return;
        }
        self.items.push(format!(
            "{{\"kind\":\"struct\",\"name\":{},\"path\":{},\"file\":{},\"line\":{},\"pub\":{},\"generics\":{},\"attrs\":{},\"fields\":{}}}",
            js(&i.ident.to_string()),
            js(&self.qual(&i.ident.to_string())),
            js(&self.file),
            i.ident.span().start().line,
            matches!(i.vis, syn::Visibility::Public(_)),
            js(&i.generics.to_token_stream().to_string()),
            attrs_json(&i.attrs),
            fields_json(&i.fields)
        ));
        syn::visit::visit_item_struct(self, i);
    }
    fn visit_item_enum(&mut self, i: &'ast syn::ItemEnum) {
        if is_cfg_test(&i.attrs) {
            return;
        }
        let mut vs = vec![];
        for v in &i.variants {
            let discr = v.discriminant.as_ref().map(|(_, e)| e.to_token_stream().to_string()).unwrap_or_default();
            let shape = match v.fields {
                syn::Fields::Named(_) => "named",
                syn::Fields::Unnamed(_) => "tuple",
                syn::Fields::Unit => "unit",
            };
            vs.push(format!(
                "{{\"name\":{},\"line\":{},\"discr\":{},\"shape\":{},\"attrs\":{},\"fields\":{}}}",
                js(&v.ident.to_string()),
                v.ident.span().start().line,
                js(&discr),
                js(shape),
                attrs_json(&v.attrs),
                fields_json(&v.fields)
            ));
        }
        self.items.push(format!(
            "{{\"kind\":\"enum\",\"name\":{},\"path\":{},\"file\":{},\"line\":{},\"pub\":{},\"generics\":{},\"attrs\":{},\"variants\":[{}]}}",
            js(&i.ident.to_string()),
            js(&self.qual(&i.ident.to_string())),
            js(&self.file),
            i.ident.span().start().line,
            matches!(i.vis, syn::Visibility::Public(_)),
            js(&i.generics.to_token_stream().to_string()),
            attrs_json(&i.attrs),
            vs.join(",")
        ));
        syn::visit::visit_item_enum(self, i);
    }
    fn visit_item_macro(&mut self, i: &'ast syn::ItemMacro) {
        if is_cfg_test(&i.attrs) {
            return;
        }
        let name = i.mac.path.to_token_stream().to_string().replace(' ', "");
        self.items.push(format!(
            "{{\"kind\":\"macro\",\"name\":{},\"path\":{},\"file\":{},\"line\":{},\"attrs\":[],\"t\":{}}}",
            js(&name),
            js(&self.qual(&name)),
            js(&self.file),
            i.mac.bang_token.span.start().line,
            toks_json(i.mac.tokens.clone())
        ));
    }
    fn visit_item_impl(&mut self, i: &'ast syn::ItemImpl) {
        if is_cfg_test(&i.attrs) {
            return;
        }
        let mut s = i.self_ty.to_token_stream().to_string().replace(' ', "");
        if let Some((_, tr, _)) = &i.trait_ {
            s = format!("<{} as {}>", s, tr.to_token_stream().to_string().replace(' ', ""));
        }
        self.impl_self.push(s);
        syn::visit::visit_item_impl(self, i);
        self.impl_self.pop();
    }
    fn visit_item_fn(&mut self, i: &'ast syn::ItemFn) {
        if is_cfg_test(&i.attrs) || i.attrs.iter().any(|a| a.path().is_ident("test")) {
            return;
        }
        self.cur_fn.push((self.qual(&i.sig.ident.to_string()), i.sig.ident.span().start().line, vec![], vec![]));
        syn::visit::visit_item_fn(self, i);
        self.finish_fn();
    }
    fn visit_impl_item_fn(&mut self, i: &'ast syn::ImplItemFn) {
        let owner = self.impl_self.last().cloned().unwrap_or_default();
        let mut p = self.modpath.clone();
        p.push(owner);
        p.push(i.sig.ident.to_string());
        self.cur_fn.push((p.join("::"), i.sig.ident.span().start().line, vec![], vec![]));
        syn::visit::visit_impl_item_fn(self, i);
        self.finish_fn();
    }
    fn visit_macro(&mut self, m: &'ast syn::Macro) {
        let name = m.path.to_token_stream().to_string().replace(' ', "");
        let line = m.bang_token.span.start().line;
        if let Some(f) = self.cur_fn.last_mut() {
            f.2.push(format!("{{\"name\":{},\"line\":{},\"t\":{}}}", js(&name), line, toks_json(m.tokens.clone())));
        }
        // visit nested expression macros (format! inside other macros) by trying to parse args as expressions
        if let Ok(args) = m.parse_body_with(syn::punctuated::Punctuated::<syn::Expr, syn::Token![,]>::parse_terminated) {
            for a in args.iter() {
                self.visit_expr(a);
            }
        }
        syn::visit::visit_macro(self, m);
    }
    fn visit_lit(&mut self, l: &'ast syn::Lit) {
        if let Some(f) = self.cur_fn.last_mut() {
            let line = l.span().start().line;
            match l {
                syn::Lit::Str(s) => f.3.push(format!("{{\"k\":\"str\",\"v\":{},\"line\":{}}}", js(&s.value()), line)),
                syn::Lit::Char(c) => f.3.push(format!("{{\"k\":\"char\",\"v\":{},\"line\":{}}}", js(&c.value().to_string()), line)),
                syn::Lit::ByteStr(b) => {
                    let h: String = b.value().iter().map(|x| format!("{:02x}", x)).collect();
                    f.3.push(format!("{{\"k\":\"bytes\",\"v\":{},\"line\":{}}}", js(&h), line))
                }
                syn::Lit::Int(i) => f.3.push(format!("{{\"k\":\"int\",\"v\":{},\"line\":{}}}", js(&i.to_string()), line)),
                _ => {}
            }
        }
    }
}

impl V {
    fn finish_fn(&mut self) {
        if let Some((name, line, macros, lits)) = self.cur_fn.pop() {
            self.fns.push(format!(
                "{{\"name\":{},\"file\":{},\"line\":{},\"macros\":[{}],\"lits\":[{}]}}",
                js(&name),
                js(&self.file),
                line,
                macros.join(","),
                lits.join(",")
            ));
        }
    }
}

fn walk(d: &std::path::Path, out: &mut Vec<std::path::PathBuf>) {
    let mut es: Vec<_> = std::fs::read_dir(d).unwrap().map(|e| e.unwrap().path()).collect();
    es.sort();
    for p in es {
        if p.is_dir() {
            walk(&p, out)
        } else if p.extension().map(|x| x == "rs").unwrap_or(false) {
            out.push(p)
        }
    }
}

fn main() {
    let root = std::env::args().nth(1).unwrap_or("/repo".into());
    let src = std::path::Path::new(&root).join("src");
    let mut files = vec![];
    walk(&src, &mut files);
    let mut items = vec![];
    let mut fns = vec![];
    let mut errs = vec![];
    let mut nfiles = 0;
    for f in files {
        let text = std::fs::read_to_string(&f).unwrap();
        let rel = f.strip_prefix(&root).unwrap().display().to_string();
        // module path from file path: src/a/b.rs -> a::b ; src/a/mod.rs -> a ; src/lib.rs -> (root)
        let mut comps: Vec<String> = f.strip_prefix(&src).unwrap().components().map(|c| c.as_os_str().to_string_lossy().to_string()).collect();
        if let Some(last) = comps.last_mut() {
            *last = last.trim_end_matches(".rs").to_string();
        }
        if comps.last().map(|s| s == "mod" || s == "lib").unwrap_or(false) {
            comps.pop();
        }
        match syn::parse_file(&text) {
            Ok(ast) => {
                nfiles += 1;
                let mut v = V { file: rel, modpath: comps, items: vec![], fns: vec![], cur_fn: vec![], impl_self: vec![] };
                v.visit_file(&ast);
                items.extend(v.items);
                fns.extend(v.fns);
            }
            Err(e) => errs.push(format!("{}: {}", rel, e)),
        }
    }
    let errs_j: Vec<String> = errs.iter().map(|e| js(e)).collect();
    println!("{{\"files\":{},\"errors\":[{}],\"items\":[{}],\"fns\":[{}]}}", nfiles, errs_j.join(","), items.join(","), fns.join(","));
}
