#!/usr/bin/env python3
"""Developer aid: record in seeded/<name>/meta.json and seeded/RESULTS.json what tools/regress.py observed for every kept
seeded change (/tmp/regress/<Cxx>.json)."""
import glob, json, os

V = os.path.dirname(os.path.dirname(os.path.abspath(__file__)))
res = {}
for f in glob.glob("/tmp/regress/C*.json"):
    for r in json.load(open(f)):
        if r["name"].startswith("seed:"):
            res[r["name"][5:]] = (os.path.basename(f)[:-5], r)
out = {}
for n in sorted(os.listdir(os.path.join(V, "seeded"))):
    d = os.path.join(V, "seeded", n)
    mp = os.path.join(d, "meta.json")
    if not os.path.isdir(d) or not os.path.exists(mp):
        continue
    meta = json.load(open(mp))
    if n in res:
        prop, r = res[n]
        meta["detected_by"] = dict(exit=1 if r["status"] == "caught" else 0, keys=r.get("keys", [])[:8])
        json.dump(meta, open(mp, "w"), indent=1)
        out[n] = dict(property=prop, status="caught" if r["status"] == "caught" else "MISSED", keys=r.get("keys", [])[:6])
    else:
        out[n] = dict(property=meta.get("property"), status="not run")
json.dump(out, open(os.path.join(V, "seeded", "RESULTS.json"), "w"), indent=1)
print(sum(1 for v in out.values() if v["status"] == "caught"), "/", len(out), "caught")
