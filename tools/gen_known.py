#!/usr/bin/env python3
"""Developer aid (never run by a check): propose known_findings.jsonl entries for the currently failing obligations
of one property, after they have been triaged by hand as genuine.  Usage: tools/gen_known.py C18 > /tmp/new.jsonl"""
import collections, json, linecache, os, re, subprocess, sys

VERIF = os.path.dirname(os.path.dirname(os.path.abspath(__file__)))
prop = sys.argv[1]
env = dict(os.environ, PV_NO_EVIDENCE="1")
out = subprocess.run([os.path.join(VERIF, "check"), prop], capture_output=True, text=True, env=env).stdout.splitlines()
CONTEXT = [
    ("model::MDL::from_existing", "MDL::from_existing walks lods/meshes/submeshes/shapes/strings with counts and offsets taken from the header without checking them against the tables actually read"),
    ("model_vertex_declarations::", "vertex declaration parser"),
    ("havok::byte_reader", "the Havok ByteReader indexes its buffer without a length check, so every truncated tag file panics"),
    ("havok::", "the Havok tag-file reader treats every malformed construct (bad signature, unknown tag/type, missing member, wrong value kind, out-of-range back-reference) as a panic"),
    ("skeleton::", "Skeleton::from_existing"),
    ("<skeleton::SKLB", "SKLB header"),
    ("avfx::", "Avfx::from_existing"),
    ("tex::", "Texture::from_existing trusts width/height/depth from the header: the source buffer may be shorter and the destination is sized from the header alone"),
    ("layer::", "layer group reader"),
    ("dic::", "Dictionary"),
    ("sqpack::", "dat block reader"),
    ("<mtrl::", "MaterialData"),
]
KIND = {
    "unwrap": "unwrap()/expect() on a value that is None/Err for truncated or corrupted input",
    "panic": "explicit panic!/todo!/unreachable!/assert reachable from input",
    "index": "indexing with a value derived from the input and no bound check",
    "bounds": "array/slice element access with an input-derived index and no bound check",
    "arith": "checked arithmetic (subtraction / negation / shift) on input-derived operands that can overflow",
    "alloc": "allocation sized by a header field, not by the amount of input present",
    "slice-pre": "slice operation whose precondition depends on the input",
    "assert-other": "compiler-inserted assertion reachable from input",
}
items = collections.OrderedDict()
i = 0
while i < len(out):
    m = re.match(r"^REPORT (\S+) rule=(\S+) at=(\S+) key=(.*)$", out[i])
    if m:
        key = m.group(4)
        detail = out[i + 1].strip() if i + 1 < len(out) else ""
        it = items.setdefault(key, dict(n=0, at=[], detail=detail, rule=m.group(2)))
        it["n"] += 1
        it["at"].append(m.group(3))
    i += 1
for key, it in items.items():
    parts = key.split("|")
    what = it["detail"]
    if it["rule"] == "PANIC":
        kind, fn = parts[1], parts[2]
        ctx = next((c for p, c in CONTEXT if fn.startswith(p)), "")
        at = it["at"][0]
        src = ""
        if ":" in at:
            f, l = at.rsplit(":", 1)
            src = linecache.getline(os.path.join("/repo", f), int(l)).strip()
        what = f"{KIND.get(kind, kind)}; {ctx + '; ' if ctx else ''}first site {at}: `{src[:90]}`"
    print(json.dumps(dict(property=prop, status="known", key=key, count=it["n"], what=what)))
