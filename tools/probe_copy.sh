#!/bin/sh
# probe_copy.sh <patch.diff> <dir> : make a scratch copy of /repo's sources in <dir> (outside /repo and /verif) with the patch applied
set -e
# never copy while a seeded change is applied to /repo (tools/keep_seed.py holds this lock then)
exec 9>/tmp/pv-repo.lock
flock 9
rm -rf "$2"; mkdir -p "$2"
for f in src Cargo.toml Cargo.lock tests examples benches resources; do [ -e /repo/$f ] && cp -r /repo/$f "$2"/; done
(cd "$2" && patch -p1 -s --no-backup-if-mismatch -i "$1")
