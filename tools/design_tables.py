#!/usr/bin/env python3
"""Regenerate the generated tables of DESIGN.md (between <!-- X-BEGIN --> / <!-- X-END --> markers) from the files
they summarise: seeded/*/meta.json + seeded/RESULTS.json, mutants/*.json, known_findings.jsonl."""
import json, os, re, glob

V = os.path.dirname(os.path.dirname(os.path.abspath(__file__)))


def seeds():
    res = {}
    p = os.path.join(V, "seeded", "RESULTS.json")
    if os.path.exists(p):
        res = json.load(open(p))
    rows = ["| seeded change | property | what it breaks (short) | detected by (first report keys) |", "|---|---|---|---|"]
    for d in sorted(glob.glob(os.path.join(V, "seeded", "*", "meta.json"))):
        n = os.path.basename(os.path.dirname(d))
        m = json.load(open(d))
        r = res.get(n, {})
        keys = r.get("keys") or (m.get("detected_by") or {}).get("keys") or []
        status = r.get("status", "caught" if keys else "?")
        summ = re.sub(r"\s+", " ", m.get("summary", ""))[:150].replace("|", "/")
        rows.append(f"| {n} | {m.get('property')} | {summ} | {status}: " + ", ".join(f"`{k[:60]}`" for k in keys[:3]).replace("|", "¦") + " |")
    return "\n".join(rows)


def mutants():
    rows = ["| property | mutants in bank | kept seeded changes |", "|---|---|---|"]
    for p in sorted(glob.glob(os.path.join(V, "mutants", "C*.json"))):
        prop = os.path.basename(p)[:-5]
        n = len(json.load(open(p)))
        s = sum(1 for d in glob.glob(os.path.join(V, "seeded", "*", "meta.json")) if json.load(open(d)).get("property") == prop)
        rows.append(f"| {prop} | {n} | {s} |")
    return "\n".join(rows)


def fixed():
    rows = ["| commit | property | what failed |", "|---|---|---|"]
    seen = set()
    for l in open(os.path.join(V, "known_findings.jsonl")):
        l = l.strip()
        if not l or l.startswith("#"):
            continue
        e = json.loads(l)
        if e.get("status") == "fixed" and (e["commit"], e["property"]) not in seen:
            seen.add((e["commit"], e["property"]))
            rows.append(f"| `{e['commit']}` | {e['property']} | {e.get('what', '')[:260].replace('|', '/')} |")
    return "\n".join(rows)


def known():
    from collections import Counter, defaultdict

    c = defaultdict(lambda: [0, 0])
    for l in open(os.path.join(V, "known_findings.jsonl")):
        l = l.strip()
        if not l or l.startswith("#"):
            continue
        e = json.loads(l)
        if e.get("status") == "known":
            c[e["property"]][0] += 1
            c[e["property"]][1] += int(e.get("count", 1))
    rows = ["| property | listed keys | sites |", "|---|---|---|"]
    for p, (k, n) in sorted(c.items()):
        rows.append(f"| {p} | {k} | {n} |")
    return "\n".join(rows)


def probes():
    p = os.path.join(V, "refactors", "RESULTS.json")
    if not os.path.exists(p):
        return "(no probe run recorded)"
    res = json.load(open(p))
    silent = sorted(n for n, r in res.items() if r["status"] == "silent")
    alarm = sorted((n, r) for n, r in res.items() if r["status"] != "silent")
    rows = [f"Last recorded run (`tools/probe_all.py`, stored by `tools/probe_results.py`): **{len(silent)} of {len(res)}** patches silent (this run used the focus mode of the probe, `PV_PROBE_FOCUS=1`: per patch its own property's check, the checks of the properties sharing its files, and C17 / C18; the runs of earlier sessions used all 18 checks per patch).", "", "Silent: " + ", ".join(silent) + ".", "", "| patch that still alarms | rule families that report it |", "|---|---|"]
    for n, r in alarm:
        rows.append(f"| {n} | {', '.join(r['reports'])} |")
    return "\n".join(rows)


def main():
    p = os.path.join(V, "DESIGN.md")
    s = open(p).read()
    for tag, fn in (("SEEDS", seeds), ("MUTANTS", mutants), ("FIXED", fixed), ("KNOWN", known), ("PROBES", probes)):
        b, e = f"<!-- {tag}-BEGIN -->", f"<!-- {tag}-END -->"
        if b in s and e in s:
            i, j = s.index(b) + len(b), s.index(e)
            s = s[:i] + "\n" + fn() + "\n" + s[j:]
    open(p, "w").write(s)


if __name__ == "__main__":
    main()
