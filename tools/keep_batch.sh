#!/bin/sh
# keep_batch.sh <out-dir> <round-tag> : confirm and keep every delivered change <out-dir>/Cxx-n/ as seeded/Cxx-<tag>-n (4 at a time)
ls -d "$1"/C??-? | while read d; do
  b=$(basename "$d"); p=${b%-*}; n=${b##*-}
  [ -e /verif/seeded/$p-$2-$n ] && continue
  [ -e /tmp/keep-$p-$2-$n.json ] && continue
  [ -e "$d/patch.diff" ] && [ -e "$d/seed_demo.rs" ] || continue
  echo "$p-$2-$n $p $d"
done | xargs -P 4 -L 1 sh -c 'python3 /verif/tools/keep_seed.py $0 $1 $2 > /tmp/keep-$0.json 2>&1; echo done $0'
