// mirfacts: rustc_private driver that dumps the resolved program of the crate under analysis as JSON facts.
//
// Injected with RUSTC_WORKSPACE_WRAPPER under `cargo +nightly check`; for the crate named by $MIRFACTS_CRATE
// (default "physis") it writes one JSON document to $MIRFACTS_OUT containing
//   bodies     : MIR of every local fn / method / closure (blocks, statements, terminators, spans, callee paths)
//   instances  : the monomorphic call graph collected from all non-generic local functions
//   consts     : compiler-evaluated values of local const / static items
//   adts       : local ADTs with variants, discriminants, fields, layout, freeze-ness
// Nothing of the analysed crate is executed; all judgement happens in the Python rule layer.
#![feature(rustc_private)]
#![allow(clippy::all)]
extern crate rustc_abi;
extern crate rustc_driver;
extern crate rustc_hir;
extern crate rustc_interface;
extern crate rustc_middle;
extern crate rustc_span;

use rustc_driver::Compilation;
use rustc_hir::def::DefKind;
use rustc_hir::def_id::DefId;
use rustc_middle::mir::{self, ConstValue, Operand, Place, ProjectionElem, Rvalue, StatementKind, TerminatorKind};
use rustc_middle::ty::print::with_no_trimmed_paths;
use rustc_middle::ty::{self, EarlyBinder, Instance, Ty, TyCtxt, TypingEnv};
use rustc_span::{ExpnKind, Span};
use std::collections::{HashMap, VecDeque};
use std::fmt::Write as _;
use std::io::Write as _;

struct Cb;

fn js(s: &str) -> String {
    let mut o = String::with_capacity(s.len() + 2);
    o.push('"');
    for c in s.chars() {
        match c {
            '"' => o.push_str("\\\""),
            '\\' => o.push_str("\\\\"),
            '\n' => o.push_str("\\n"),
            '\r' => o.push_str("\\r"),
            '\t' => o.push_str("\\t"),
            c if (c as u32) < 0x20 => {
                let _ = write!(o, "\\u{:04x}", c as u32);
            }
            c => o.push(c),
        }
    }
    o.push('"');
    o
}

fn hex(b: &[u8]) -> String {
    let mut o = String::with_capacity(b.len() * 2);
    for x in b {
        let _ = write!(o, "{:02x}", x);
    }
    o
}

/// Field offsets of a constant whose (pointee) type is a struct: `,"fields":[[name, offset, size], ...]` — constants of
/// library types (ranges) are decoded from their bytes by the rule layer, which must not guess the field order.
fn struct_fields_json<'tcx>(tcx: TyCtxt<'tcx>, env: TypingEnv<'tcx>, ty: Ty<'tcx>) -> String {
    let inner = match ty.kind() {
        ty::Ref(_, t, _) => *t,
        _ => ty,
    };
    let ty::Adt(def, args) = inner.kind() else { return String::new() };
    if !def.is_struct() {
        return String::new();
    }
    let Ok(l) = tcx.layout_of(env.as_query_input(inner)) else { return String::new() };
    let mut o = String::from(",\"fields\":[");
    for (i, f) in def.non_enum_variant().fields.iter().enumerate() {
        if i > 0 {
            o.push(',');
        }
        let fty = f.ty(tcx, args);
        let sz = tcx.layout_of(env.as_query_input(fty)).map(|x| x.size.bytes()).unwrap_or(0);
        let _ = write!(o, "[{},{},{}]", js(&f.name.to_string()), l.fields.offset(i).bytes(), sz);
    }
    o.push(']');
    o
}

/// Pointers stored in a constant allocation from byte `from` on: [[offset relative to `from`, hex of the target bytes
/// (at most 256, starting at the pointed-to offset)], ..] - lets the rule layer read string literals held in constant
/// tables such as `[(&str, Enum); N]`.
fn relocs_json<'tcx>(tcx: TyCtxt<'tcx>, a: &rustc_middle::mir::interpret::Allocation, from: usize) -> String {
    let mut s = String::from("[");
    let mut first = true;
    for (off, prov) in a.provenance().ptrs().iter() {
        let o = off.bytes() as usize;
        if o < from || o + 8 > a.len() {
            continue;
        }
        if let Some(rustc_middle::mir::interpret::GlobalAlloc::Memory(t)) = tcx.try_get_global_alloc(prov.alloc_id()) {
            let t = t.inner();
            let raw = a.inspect_with_uninit_and_ptr_outside_interpreter(o..o + 8);
            let mut ob = [0u8; 8];
            ob.copy_from_slice(raw);
            let toff = u64::from_le_bytes(ob) as usize;
            if toff <= t.len() {
                let end = std::cmp::min(t.len(), toff + 256);
                let tb = t.inspect_with_uninit_and_ptr_outside_interpreter(toff..end);
                if !first {
                    s.push(',');
                }
                first = false;
                let _ = write!(s, "[{},\"{}\"]", o - from, hex(tb));
            }
        }
    }
    s.push(']');
    s
}

fn tys<'tcx>(t: Ty<'tcx>) -> String {
    with_no_trimmed_paths!(format!("{}", t))
}

fn dps(tcx: TyCtxt<'_>, d: DefId) -> String {
    with_no_trimmed_paths!(tcx.def_path_str(d))
}

fn span_json(tcx: TyCtxt<'_>, sp: Span) -> String {
    // root user call site + chain of expansion names (innermost first)
    let mut chain: Vec<String> = vec![];
    let mut cur = sp;
    let mut guard = 0;
    while cur.from_expansion() && guard < 64 {
        let ed = cur.ctxt().outer_expn_data();
        match ed.kind {
            ExpnKind::Macro(k, name) => chain.push(format!("{:?}:{}", k, name)),
            ExpnKind::Desugaring(k) => chain.push(format!("Desugar:{:?}", k)),
            ExpnKind::AstPass(k) => chain.push(format!("AstPass:{:?}", k)),
            ExpnKind::Root => chain.push("Root".to_string()),
        }
        cur = ed.call_site;
        guard += 1;
    }
    let s = tcx.sess.source_map().span_to_diagnostic_string(cur);
    // "src/x.rs:12:5: 12:20" -> "src/x.rs:12:5"
    let loc = match s.find(": ") {
        Some(i) => s[..i].to_string(),
        None => s,
    };
    let mut o = String::new();
    let _ = write!(o, "{{\"at\":{},\"mx\":[", js(&loc));
    for (i, c) in chain.iter().enumerate() {
        if i > 0 {
            o.push(',');
        }
        o.push_str(&js(c));
    }
    o.push_str("]}");
    o
}

struct BodyCx<'a, 'tcx> {
    tcx: TyCtxt<'tcx>,
    body: &'a mir::Body<'tcx>,
    env: TypingEnv<'tcx>,
}

impl<'a, 'tcx> BodyCx<'a, 'tcx> {
    fn place(&self, p: &Place<'tcx>) -> String {
        let mut o = String::new();
        let _ = write!(o, "{{\"l\":{},\"p\":[", p.local.as_usize());
        let mut pty = mir::PlaceTy::from_ty(self.body.local_decls[p.local].ty);
        for (i, e) in p.projection.iter().enumerate() {
            if i > 0 {
                o.push(',');
            }
            match e {
                ProjectionElem::Deref => o.push_str("\"*\""),
                ProjectionElem::Field(f, _) => {
                    let mut name: Option<String> = None;
                    let mut adt = String::new();
                    if let ty::Adt(def, _) = pty.ty.kind() {
                        let v = pty.variant_index.unwrap_or(rustc_abi::FIRST_VARIANT);
                        if v.as_usize() < def.variants().len() {
                            let vd = def.variant(v);
                            if f.as_usize() < vd.fields.len() {
                                name = Some(vd.fields[f].name.to_string());
                                adt = dps(self.tcx, def.did());
                                if def.is_enum() {
                                    adt.push_str("::");
                                    adt.push_str(&vd.name.to_string());
                                }
                            }
                        }
                    }
                    match name {
                        Some(n) => {
                            let _ = write!(o, "{{\"f\":{},\"n\":{},\"a\":{}}}", f.as_usize(), js(&n), js(&adt));
                        }
                        None => {
                            let _ = write!(o, "{{\"f\":{}}}", f.as_usize());
                        }
                    }
                }
                ProjectionElem::Index(l) => {
                    let _ = write!(o, "{{\"i\":{}}}", l.as_usize());
                }
                ProjectionElem::ConstantIndex { offset, min_length, from_end } => {
                    let _ = write!(o, "{{\"ci\":{},\"ml\":{},\"fe\":{}}}", offset, min_length, from_end);
                }
                ProjectionElem::Subslice { from, to, from_end } => {
                    let _ = write!(o, "{{\"ss\":[{},{}],\"fe\":{}}}", from, to, from_end);
                }
                ProjectionElem::Downcast(name, v) => {
                    let n = name.map(|s| s.to_string()).unwrap_or_default();
                    let _ = write!(o, "{{\"d\":{},\"n\":{}}}", v.as_usize(), js(&n));
                }
                _ => o.push_str("\"o\""),
            }
            pty = pty.projection_ty(self.tcx, e);
        }
        let _ = write!(o, "],\"ty\":{}}}", js(&tys(pty.ty)));
        o
    }

    fn alloc_bytes(&self, alloc_id: rustc_middle::mir::interpret::AllocId, off: u64, len: Option<u64>) -> Option<Vec<u8>> {
        match self.tcx.try_get_global_alloc(alloc_id) {
            Some(rustc_middle::mir::interpret::GlobalAlloc::Memory(a)) => {
                let a = a.inner();
                let total = a.len() as u64;
                let end = match len {
                    Some(l) => (off + l).min(total),
                    None => total,
                };
                if off > end {
                    return None;
                }
                Some(a.inspect_with_uninit_and_ptr_outside_interpreter(off as usize..end as usize).to_vec())
            }
            _ => None,
        }
    }

    fn constant(&self, c: &mir::ConstOperand<'tcx>) -> String {
        let ty = c.const_.ty();
        let mut o = String::new();
        let _ = write!(o, "{{\"k\":{{\"ty\":{}", js(&tys(ty)));
        match ty.kind() {
            ty::FnDef(d, args) => {
                let _ = write!(o, ",\"fn\":{},\"ga\":[", js(&dps(self.tcx, *d)));
                for (i, a) in args.iter().enumerate() {
                    if i > 0 {
                        o.push(',');
                    }
                    o.push_str(&js(&with_no_trimmed_paths!(format!("{}", a))));
                }
                o.push(']');
            }
            ty::Closure(d, _) => {
                let _ = write!(o, ",\"closure\":{}", js(&dps(self.tcx, *d)));
            }
            _ => {
                // scalar?
                let is_scalar = ty.is_integral() || ty.is_bool() || ty.is_char() || ty.is_floating_point();
                if is_scalar {
                    if let Some(s) = c.const_.try_eval_scalar_int(self.tcx, self.env) {
                        let bits = s.to_bits(s.size());
                        let _ = write!(o, ",\"bits\":\"{}\",\"size\":{}", bits, s.size().bytes());
                    }
                } else {
                    // try references to str / byte arrays / slices
                    if let Ok(v) = c.const_.eval(self.tcx, self.env, c.span) {
                        match v {
                            ConstValue::Slice { alloc_id, meta } => {
                                if let Some(b) = self.alloc_bytes(alloc_id, 0, None) {
                                    // meta = element count; for str/[u8] = bytes
                                    let n = (meta as usize).min(b.len());
                                    let inner_is_bytes = match ty.kind() {
                                        ty::Ref(_, t, _) => t.is_str() || matches!(t.kind(), ty::Slice(e) if *e == self.tcx.types.u8),
                                        _ => false,
                                    };
                                    if inner_is_bytes {
                                        let _ = write!(o, ",\"bytes\":\"{}\"", hex(&b[..n]));
                                        if let ty::Ref(_, t, _) = ty.kind() {
                                            if t.is_str() {
                                                if let Ok(s) = std::str::from_utf8(&b[..n]) {
                                                    let _ = write!(o, ",\"str\":{}", js(s));
                                                }
                                            }
                                        }
                                    } else {
                                        let _ = write!(o, ",\"bytes\":\"{}\",\"meta\":{}", hex(&b), meta);
                                    }
                                }
                            }
                            ConstValue::Scalar(mir::interpret::Scalar::Ptr(ptr, _)) => {
                                let (prov, off) = ptr.into_raw_parts();
                                if let Some(b) = self.alloc_bytes(prov.alloc_id(), off.bytes(), None) {
                                    if b.len() <= 65536 {
                                        let _ = write!(o, ",\"bytes\":\"{}\"", hex(&b));
                                        o.push_str(&struct_fields_json(self.tcx, self.env, ty));
                                    }
                                }
                                // &&str / &&[u8]: follow the inner fat pointer to the literal
                                let inner_is_str_ref = match ty.kind() {
                                    ty::Ref(_, t, _) => match t.kind() {
                                        ty::Ref(_, t2, _) => t2.is_str(),
                                        _ => false,
                                    },
                                    _ => false,
                                };
                                if inner_is_str_ref {
                                    if let Some(rustc_middle::mir::interpret::GlobalAlloc::Memory(a)) = self.tcx.try_get_global_alloc(prov.alloc_id()) {
                                        let a = a.inner();
                                        let base = off.bytes() as usize;
                                        if let Some((_, inner_prov)) = a.provenance().ptrs().iter().find(|(o2, _)| o2.bytes() as usize == base) {
                                            let all = a.inspect_with_uninit_and_ptr_outside_interpreter(0..a.len());
                                            if all.len() >= base + 16 {
                                                let mut lenb = [0u8; 8];
                                                lenb.copy_from_slice(&all[base + 8..base + 16]);
                                                let n = u64::from_le_bytes(lenb) as usize;
                                                let mut offb = [0u8; 8];
                                                offb.copy_from_slice(&all[base..base + 8]);
                                                let inner_off = u64::from_le_bytes(offb) as usize;
                                                if let Some(ib) = self.alloc_bytes(inner_prov.alloc_id(), inner_off as u64, Some(n as u64)) {
                                                    if let Ok(st) = std::str::from_utf8(&ib) {
                                                        let _ = write!(o, ",\"str\":{}", js(st));
                                                    }
                                                }
                                            }
                                        }
                                    }
                                }
                            }
                            ConstValue::Indirect { alloc_id, offset } => {
                                if let Some(b) = self.alloc_bytes(alloc_id, offset.bytes(), None) {
                                    if b.len() <= 65536 {
                                        let _ = write!(o, ",\"bytes\":\"{}\"", hex(&b));
                                        o.push_str(&struct_fields_json(self.tcx, self.env, ty));
                                    }
                                }
                            }
                            ConstValue::ZeroSized => {
                                o.push_str(",\"zst\":true");
                            }
                            _ => {}
                        }
                    }
                }
            }
        }
        if let mir::Const::Unevaluated(u, _) = c.const_ {
            let _ = write!(o, ",\"uneval\":{}", js(&dps(self.tcx, u.def)));
            if let Some(p) = u.promoted {
                let _ = write!(o, ",\"promoted\":{}", p.as_usize());
            }
        }
        o.push_str("}}");
        o
    }

    fn operand(&self, op: &Operand<'tcx>) -> String {
        match op {
            Operand::Copy(p) => format!("{{\"c\":{}}}", self.place(p)),
            Operand::Move(p) => format!("{{\"m\":{}}}", self.place(p)),
            Operand::Constant(c) => self.constant(c),
            #[allow(unreachable_patterns)]
            _ => "{\"x\":\"other\"}".to_string(),
        }
    }

    fn rvalue(&self, rv: &Rvalue<'tcx>) -> String {
        match rv {
            Rvalue::Use(op, ..) => format!("{{\"k\":\"use\",\"a\":{}}}", self.operand(op)),
            Rvalue::Repeat(op, n) => format!("{{\"k\":\"repeat\",\"a\":{},\"n\":{}}}", self.operand(op), js(&format!("{:?}", n))),
            Rvalue::Ref(_, bk, p) => {
                let m = matches!(bk, mir::BorrowKind::Mut { .. });
                format!("{{\"k\":\"ref\",\"mut\":{},\"p\":{}}}", m, self.place(p))
            }
            Rvalue::RawPtr(k, p) => format!("{{\"k\":\"rawptr\",\"mut\":{},\"p\":{}}}", js(&format!("{:?}", k)), self.place(p)),
            Rvalue::Cast(kind, op, ty) => {
                let mut extra = String::new();
                // fn-pointer reification / closure coercion: record the source fn
                let st = op.ty(&self.body.local_decls, self.tcx);
                match st.kind() {
                    ty::FnDef(d, _) => {
                        let _ = write!(extra, ",\"reify\":{}", js(&dps(self.tcx, *d)));
                    }
                    ty::Closure(d, _) => {
                        let _ = write!(extra, ",\"reify\":{}", js(&dps(self.tcx, *d)));
                    }
                    _ => {}
                }
                format!(
                    "{{\"k\":\"cast\",\"ck\":{},\"a\":{},\"from\":{},\"to\":{}{}}}",
                    js(&format!("{:?}", kind)),
                    self.operand(op),
                    js(&tys(st)),
                    js(&tys(*ty)),
                    extra
                )
            }
            Rvalue::BinaryOp(bop, ab) => {
                format!("{{\"k\":\"bin\",\"op\":{},\"a\":{},\"b\":{}}}", js(&format!("{:?}", bop)), self.operand(&ab.0), self.operand(&ab.1))
            }
            Rvalue::UnaryOp(uop, a) => format!("{{\"k\":\"un\",\"op\":{},\"a\":{}}}", js(&format!("{:?}", uop)), self.operand(a)),
            Rvalue::Discriminant(p) => format!("{{\"k\":\"discr\",\"p\":{}}}", self.place(p)),
            Rvalue::Aggregate(kind, ops) => {
                let mut o = String::from("{\"k\":\"agg\"");
                match &**kind {
                    mir::AggregateKind::Array(t) => {
                        let _ = write!(o, ",\"ak\":\"array\",\"ety\":{}", js(&tys(*t)));
                    }
                    mir::AggregateKind::Tuple => o.push_str(",\"ak\":\"tuple\""),
                    mir::AggregateKind::Adt(did, vidx, _, _, active) => {
                        let def = self.tcx.adt_def(*did);
                        let v = def.variant(*vidx);
                        let _ = write!(o, ",\"ak\":\"adt\",\"adt\":{},\"variant\":{},\"vidx\":{},\"fields\":[", js(&dps(self.tcx, *did)), js(&v.name.to_string()), vidx.as_usize());
                        if let Some(a) = active {
                            // union: single active field
                            let _ = write!(o, "{}", js(&v.fields[*a].name.to_string()));
                        } else {
                            for (i, f) in v.fields.iter().enumerate() {
                                if i > 0 {
                                    o.push(',');
                                }
                                o.push_str(&js(&f.name.to_string()));
                            }
                        }
                        o.push(']');
                    }
                    mir::AggregateKind::Closure(d, _) => {
                        let _ = write!(o, ",\"ak\":\"closure\",\"closure\":{}", js(&dps(self.tcx, *d)));
                    }
                    other => {
                        let _ = write!(o, ",\"ak\":{}", js(&format!("{:?}", other).chars().take(40).collect::<String>()));
                    }
                }
                o.push_str(",\"ops\":[");
                for (i, op) in ops.iter().enumerate() {
                    if i > 0 {
                        o.push(',');
                    }
                    o.push_str(&self.operand(op));
                }
                o.push_str("]}");
                o
            }
            Rvalue::CopyForDeref(p) => format!("{{\"k\":\"use\",\"a\":{{\"c\":{}}}}}", self.place(p)),
            Rvalue::ThreadLocalRef(d) => format!("{{\"k\":\"tls\",\"def\":{}}}", js(&dps(self.tcx, *d))),
            other => format!("{{\"k\":\"other\",\"dbg\":{}}}", js(&format!("{:?}", other).chars().take(120).collect::<String>())),
        }
    }
}

fn dump_body<'tcx>(tcx: TyCtxt<'tcx>, did: DefId, out: &mut String) {
    let body = tcx.instance_mir(ty::InstanceKind::Item(did));
    let env = TypingEnv::post_analysis(tcx, did);
    let cx = BodyCx { tcx, body, env };
    let kind = tcx.def_kind(did);
    let _ = write!(out, "{{\"def\":{},\"kind\":{}", js(&dps(tcx, did)), js(&format!("{:?}", kind)));
    let _ = write!(out, ",\"span\":{}", span_json(tcx, tcx.def_span(did)));
    let _ = write!(out, ",\"argc\":{}", body.arg_count);
    let generic = tcx.generics_of(did).requires_monomorphization(tcx);
    let _ = write!(out, ",\"generic\":{}", generic);
    if matches!(kind, DefKind::Fn | DefKind::AssocFn) {
        let vis = tcx.visibility(did);
        let _ = write!(out, ",\"vis\":{}", js(&format!("{:?}", vis).chars().take(60).collect::<String>()));
        if let Some(l) = did.as_local() {
            let reach = tcx.effective_visibilities(()).is_reachable(l);
            let _ = write!(out, ",\"reachable_pub\":{}", reach);
        }
    }
    // parent (for closures: the enclosing fn)
    if matches!(kind, DefKind::Closure) {
        let p = tcx.typeck_root_def_id(did);
        let _ = write!(out, ",\"root\":{}", js(&dps(tcx, p)));
    }
    // impl-of info
    if let Some(impl_did) = tcx.impl_of_assoc(did) {
        if let Some(tr) = tcx.impl_opt_trait_ref(impl_did) {
            let tr = tr.instantiate_identity().skip_norm_wip();
            let _ = write!(out, ",\"impl_trait\":{},\"impl_self\":{}", js(&dps(tcx, tr.def_id)), js(&tys(tr.self_ty())));
        } else {
            let st = tcx.type_of(impl_did).instantiate_identity().skip_norm_wip();
            let _ = write!(out, ",\"impl_self\":{}", js(&tys(st)));
        }
        let _ = write!(out, ",\"impl_span\":{}", span_json(tcx, tcx.def_span(impl_did)));
    }
    out.push_str(",\"locals\":[");
    for (i, (_, d)) in body.local_decls.iter_enumerated().enumerate() {
        if i > 0 {
            out.push(',');
        }
        let _ = write!(out, "{{\"ty\":{}}}", js(&tys(d.ty)));
    }
    out.push_str("],\"dbg\":[");
    let mut first = true;
    for v in &body.var_debug_info {
        if let mir::VarDebugInfoContents::Place(p) = &v.value {
            if !first {
                out.push(',');
            }
            first = false;
            let _ = write!(out, "{{\"name\":{},\"p\":{}}}", js(&v.name.to_string()), cx.place(p));
        }
    }
    out.push_str("],\"blocks\":[");
    for (bi, (_, data)) in body.basic_blocks.iter_enumerated().enumerate() {
        if bi > 0 {
            out.push(',');
        }
        let _ = write!(out, "{{\"cleanup\":{},\"s\":[", data.is_cleanup);
        let mut firsts = true;
        for st in &data.statements {
            let s = match &st.kind {
                StatementKind::Assign(b) => {
                    format!("{{\"k\":\"assign\",\"lhs\":{},\"rv\":{},\"sp\":{}}}", cx.place(&b.0), cx.rvalue(&b.1), span_json(tcx, st.source_info.span))
                }
                StatementKind::SetDiscriminant { place, variant_index } => {
                    format!("{{\"k\":\"setdiscr\",\"lhs\":{},\"v\":{},\"sp\":{}}}", cx.place(place), variant_index.as_usize(), span_json(tcx, st.source_info.span))
                }
                StatementKind::Intrinsic(i) => {
                    format!("{{\"k\":\"intrinsic\",\"dbg\":{},\"sp\":{}}}", js(&format!("{:?}", i).chars().take(160).collect::<String>()), span_json(tcx, st.source_info.span))
                }
                _ => continue,
            };
            if !firsts {
                out.push(',');
            }
            firsts = false;
            out.push_str(&s);
        }
        out.push_str("],\"t\":");
        let term = data.terminator();
        let tsp = span_json(tcx, term.source_info.span);
        match &term.kind {
            TerminatorKind::Goto { target } => {
                let _ = write!(out, "{{\"k\":\"goto\",\"t\":{}}}", target.as_usize());
            }
            TerminatorKind::SwitchInt { discr, targets } => {
                let _ = write!(out, "{{\"k\":\"switch\",\"a\":{},\"arms\":[", cx.operand(discr));
                for (i, (v, t)) in targets.iter().enumerate() {
                    if i > 0 {
                        out.push(',');
                    }
                    let _ = write!(out, "[\"{}\",{}]", v, t.as_usize());
                }
                let _ = write!(out, "],\"else\":{},\"sp\":{}}}", targets.otherwise().as_usize(), tsp);
            }
            TerminatorKind::Return => out.push_str("{\"k\":\"return\"}"),
            TerminatorKind::Unreachable => out.push_str("{\"k\":\"unreachable\"}"),
            TerminatorKind::UnwindResume => out.push_str("{\"k\":\"resume\"}"),
            TerminatorKind::UnwindTerminate(_) => out.push_str("{\"k\":\"terminate\"}"),
            TerminatorKind::Drop { place, target, unwind, .. } => {
                let uw = match unwind {
                    mir::UnwindAction::Cleanup(b) => b.as_usize() as i64,
                    _ => -1,
                };
                let _ = write!(out, "{{\"k\":\"drop\",\"p\":{},\"t\":{},\"uw\":{}}}", cx.place(place), target.as_usize(), uw);
            }
            TerminatorKind::Call { func, args, destination, target, unwind, fn_span, .. } => {
                let uw = match unwind {
                    mir::UnwindAction::Cleanup(b) => b.as_usize() as i64,
                    _ => -1,
                };
                let _ = write!(out, "{{\"k\":\"call\",\"f\":{},\"args\":[", cx.operand(func));
                for (i, a) in args.iter().enumerate() {
                    if i > 0 {
                        out.push(',');
                    }
                    out.push_str(&cx.operand(&a.node));
                }
                let t = target.map(|b| b.as_usize() as i64).unwrap_or(-1);
                let _ = write!(out, "],\"dest\":{},\"t\":{},\"uw\":{},\"sp\":{},\"fsp\":{}", cx.place(destination), t, uw, tsp, span_json(tcx, *fn_span));
                // polymorphic-level resolution
                let fty = func.ty(&body.local_decls, tcx);
                if let ty::FnDef(d, a) = fty.kind() {
                    // callee declared `unsafe fn` (FFI items and std's raw-parts constructors): the UNSAFE rule's inventory
                    if !tcx.fn_sig(*d).skip_binder().safety().is_safe() {
                        out.push_str(",\"unsafe\":true");
                    }
                    if let Ok(Some(ci)) = Instance::try_resolve(tcx, env, *d, a) {
                        let _ = write!(out, ",\"res\":{},\"resk\":{},\"resl\":{}", js(&dps(tcx, ci.def_id())), js(inst_kind(&ci)), ci.def_id().is_local());
                        let _ = write!(out, ",\"resn\":{}", js(&with_no_trimmed_paths!(format!("{}", ci))));
                    }
                }
                out.push('}');
            }
            TerminatorKind::TailCall { func, args, fn_span } => {
                let _ = write!(out, "{{\"k\":\"call\",\"tail\":true,\"f\":{},\"args\":[", cx.operand(func));
                for (i, a) in args.iter().enumerate() {
                    if i > 0 {
                        out.push(',');
                    }
                    out.push_str(&cx.operand(&a.node));
                }
                let _ = write!(out, "],\"t\":-1,\"uw\":-1,\"sp\":{},\"fsp\":{}}}", tsp, span_json(tcx, *fn_span));
            }
            TerminatorKind::Assert { cond, expected, msg, target, unwind } => {
                let uw = match unwind {
                    mir::UnwindAction::Cleanup(b) => b.as_usize() as i64,
                    _ => -1,
                };
                let (mk, mops): (String, Vec<String>) = match &**msg {
                    mir::AssertKind::BoundsCheck { len, index } => ("BoundsCheck".into(), vec![cx.operand(len), cx.operand(index)]),
                    mir::AssertKind::Overflow(op, a, b) => (format!("Overflow:{:?}", op), vec![cx.operand(a), cx.operand(b)]),
                    mir::AssertKind::OverflowNeg(a) => ("OverflowNeg".into(), vec![cx.operand(a)]),
                    mir::AssertKind::DivisionByZero(a) => ("DivisionByZero".into(), vec![cx.operand(a)]),
                    mir::AssertKind::RemainderByZero(a) => ("RemainderByZero".into(), vec![cx.operand(a)]),
                    other => (format!("{:?}", other).chars().take(40).collect(), vec![]),
                };
                let _ = write!(
                    out,
                    "{{\"k\":\"assert\",\"cond\":{},\"expected\":{},\"msg\":{},\"mops\":[{}],\"t\":{},\"uw\":{},\"sp\":{}}}",
                    cx.operand(cond),
                    expected,
                    js(&mk),
                    mops.join(","),
                    target.as_usize(),
                    uw,
                    tsp
                );
            }
            TerminatorKind::FalseEdge { real_target, .. } => {
                let _ = write!(out, "{{\"k\":\"goto\",\"t\":{}}}", real_target.as_usize());
            }
            TerminatorKind::FalseUnwind { real_target, .. } => {
                let _ = write!(out, "{{\"k\":\"goto\",\"t\":{}}}", real_target.as_usize());
            }
            other => {
                let _ = write!(out, "{{\"k\":\"other\",\"dbg\":{}}}", js(&format!("{:?}", other).chars().take(80).collect::<String>()));
            }
        }
        out.push('}');
    }
    out.push_str("]}");
}

fn inst_kind(i: &Instance<'_>) -> &'static str {
    match i.def {
        ty::InstanceKind::Item(_) => "item",
        ty::InstanceKind::Intrinsic(_) => "intrinsic",
        ty::InstanceKind::Virtual(..) => "virtual",
        ty::InstanceKind::DropGlue(..) => "dropglue",
        ty::InstanceKind::ClosureOnceShim { .. } => "closure_once_shim",
        ty::InstanceKind::FnPtrShim(..) => "fnptr_shim",
        ty::InstanceKind::ReifyShim(..) => "reify_shim",
        ty::InstanceKind::CloneShim(..) => "clone_shim",
        ty::InstanceKind::VTableShim(..) => "vtable_shim",
        _ => "other_shim",
    }
}

fn mentions_local<'tcx>(inst: Instance<'tcx>) -> bool {
    if inst.def_id().is_local() {
        return true;
    }
    for a in inst.args.iter() {
        for t in a.walk() {
            if let ty::GenericArgKind::Type(t) = t.kind() {
                match t.kind() {
                    ty::Adt(d, _) if d.did().is_local() => return true,
                    ty::Closure(d, _) | ty::FnDef(d, _) if d.is_local() => return true,
                    _ => {}
                }
            }
        }
    }
    // drop glue of a local type
    if let ty::InstanceKind::DropGlue(_, Some(t)) = inst.def {
        for t in t.walk() {
            if let ty::GenericArgKind::Type(t) = t.kind() {
                match t.kind() {
                    ty::Adt(d, _) if d.did().is_local() => return true,
                    ty::Closure(d, _) | ty::FnDef(d, _) if d.is_local() => return true,
                    _ => {}
                }
            }
        }
    }
    false
}

struct Mono<'tcx> {
    ids: HashMap<Instance<'tcx>, usize>,
    list: Vec<Instance<'tcx>>,
    edges: Vec<Vec<(usize, usize, &'static str)>>, // (bb, callee id, kind)
    entered: Vec<bool>,
    queue: VecDeque<usize>,
    unresolved: Vec<String>,
    indirect: Vec<String>,
}

impl<'tcx> Mono<'tcx> {
    fn id(&mut self, i: Instance<'tcx>) -> usize {
        if let Some(x) = self.ids.get(&i) {
            return *x;
        }
        let n = self.list.len();
        self.ids.insert(i, n);
        self.list.push(i);
        self.edges.push(vec![]);
        self.entered.push(false);
        self.queue.push_back(n);
        n
    }
}

fn collect_mono<'tcx>(tcx: TyCtxt<'tcx>, roots: Vec<Instance<'tcx>>) -> Mono<'tcx> {
    let env = TypingEnv::fully_monomorphized();
    let mut m = Mono { ids: HashMap::new(), list: vec![], edges: vec![], entered: vec![], queue: VecDeque::new(), unresolved: vec![], indirect: vec![] };
    for r in roots {
        m.id(r);
    }
    while let Some(n) = m.queue.pop_front() {
        let inst = m.list[n];
        if !mentions_local(inst) {
            continue;
        }
        let body = match inst.def {
            ty::InstanceKind::Item(d) => {
                if !tcx.is_mir_available(d) {
                    continue;
                }
                if tcx.is_foreign_item(d) {
                    continue;
                }
                tcx.instance_mir(inst.def)
            }
            ty::InstanceKind::Virtual(..) | ty::InstanceKind::Intrinsic(..) => continue,
            _ => tcx.instance_mir(inst.def),
        };
        m.entered[n] = true;
        for (bb, data) in body.basic_blocks.iter_enumerated() {
            for st in &data.statements {
                if let StatementKind::Assign(b) = &st.kind {
                    if let Rvalue::Cast(mir::CastKind::PointerCoercion(..), op, _) = &b.1 {
                        let t = op.ty(&body.local_decls, tcx);
                        let t = inst.instantiate_mir_and_normalize_erasing_regions(tcx, env, EarlyBinder::bind(t));
                        match t.kind() {
                            ty::FnDef(d, a) => {
                                if let Ok(Some(ci)) = Instance::try_resolve(tcx, env, *d, a) {
                                    let c = m.id(ci);
                                    m.edges[n].push((bb.as_usize(), c, "reify"));
                                }
                            }
                            ty::Closure(d, a) => {
                                let ci = Instance::resolve_closure(tcx, *d, a, ty::ClosureKind::FnOnce);
                                let c = m.id(ci);
                                m.edges[n].push((bb.as_usize(), c, "reify"));
                            }
                            _ => {}
                        }
                    }
                }
            }
            let term = data.terminator();
            match &term.kind {
                TerminatorKind::Call { func, .. } | TerminatorKind::TailCall { func, .. } => {
                    let t = func.ty(&body.local_decls, tcx);
                    let t = inst.instantiate_mir_and_normalize_erasing_regions(tcx, env, EarlyBinder::bind(t));
                    if let ty::FnDef(d, a) = t.kind() {
                        match Instance::try_resolve(tcx, env, *d, a) {
                            Ok(Some(ci)) => {
                                let c = m.id(ci);
                                m.edges[n].push((bb.as_usize(), c, "call"));
                            }
                            _ => m.unresolved.push(with_no_trimmed_paths!(format!("{} -> {:?}", inst, t))),
                        }
                    } else {
                        m.indirect.push(with_no_trimmed_paths!(format!("{} @bb{} : {}", inst, bb.as_usize(), t)));
                    }
                }
                TerminatorKind::Drop { place, .. } => {
                    let t = place.ty(&body.local_decls, tcx).ty;
                    let t = inst.instantiate_mir_and_normalize_erasing_regions(tcx, env, EarlyBinder::bind(t));
                    let ci = Instance::resolve_drop_in_place(tcx, t);
                    if mentions_local(ci) {
                        let c = m.id(ci);
                        m.edges[n].push((bb.as_usize(), c, "drop"));
                    }
                }
                _ => {}
            }
        }
    }
    m
}

impl rustc_driver::Callbacks for Cb {
    fn after_analysis<'tcx>(&mut self, _c: &rustc_interface::interface::Compiler, tcx: TyCtxt<'tcx>) -> Compilation {
        let want = std::env::var("MIRFACTS_CRATE").unwrap_or("physis".into());
        let krate = tcx.crate_name(rustc_span::def_id::LOCAL_CRATE).to_string();
        if krate != want {
            return Compilation::Continue;
        }
        // only the lib target (cargo check --all-targets would also build test harness variants)
        let outp = match std::env::var("MIRFACTS_OUT") {
            Ok(p) => p,
            Err(_) => return Compilation::Continue,
        };
        let is_test = tcx.sess.opts.test;
        let outp = if is_test { format!("{}.test", outp) } else { outp };
        let mut out = String::with_capacity(64 << 20);
        let _ = write!(out, "{{\"crate\":{},\"test_harness\":{},\"bodies\":[", js(&krate), is_test);
        // ---- bodies
        let mut first = true;
        let mut roots: Vec<Instance<'tcx>> = vec![];
        let mut nbodies = 0usize;
        for ldid in tcx.mir_keys(()) {
            let did = ldid.to_def_id();
            let kind = tcx.def_kind(did);
            if !matches!(kind, DefKind::Fn | DefKind::AssocFn | DefKind::Closure) {
                continue;
            }
            if !tcx.is_mir_available(did) {
                continue;
            }
            if !first {
                out.push(',');
            }
            first = false;
            dump_body(tcx, did, &mut out);
            nbodies += 1;
            if matches!(kind, DefKind::Fn | DefKind::AssocFn) && !tcx.generics_of(did).requires_monomorphization(tcx) {
                roots.push(Instance::mono(tcx, did));
            }
        }
        out.push_str("],\"instances\":[");
        // ---- mono graph
        let m = collect_mono(tcx, roots);
        for (i, inst) in m.list.iter().enumerate() {
            if i > 0 {
                out.push(',');
            }
            let _ = write!(
                out,
                "{{\"id\":{},\"name\":{},\"def\":{},\"local\":{},\"kind\":{},\"entered\":{},\"calls\":[",
                i,
                js(&with_no_trimmed_paths!(format!("{}", inst))),
                js(&dps(tcx, inst.def_id())),
                inst.def_id().is_local(),
                js(inst_kind(inst)),
                m.entered[i]
            );
            for (k, (bb, c, kind)) in m.edges[i].iter().enumerate() {
                if k > 0 {
                    out.push(',');
                }
                let _ = write!(out, "[{},{},{}]", bb, c, js(kind));
            }
            out.push_str("]}");
        }
        out.push_str("],\"unresolved\":[");
        for (i, u) in m.unresolved.iter().enumerate() {
            if i > 0 {
                out.push(',');
            }
            out.push_str(&js(u));
        }
        out.push_str("],\"indirect\":[");
        for (i, u) in m.indirect.iter().enumerate() {
            if i > 0 {
                out.push(',');
            }
            out.push_str(&js(u));
        }
        out.push_str("],\"consts\":[");
        // ---- consts
        let mut first = true;
        for ldid in tcx.hir_body_owners() {
            let did = ldid.to_def_id();
            let kind = tcx.def_kind(did);
            if !matches!(kind, DefKind::Const { .. } | DefKind::Static { .. } | DefKind::AssocConst { .. }) {
                continue;
            }
            if tcx.generics_of(did).requires_monomorphization(tcx) {
                continue;
            }
            let ty = tcx.type_of(did).instantiate_identity().skip_norm_wip();
            let mut entry = format!("{{\"path\":{},\"ty\":{},\"span\":{}", js(&dps(tcx, did)), js(&tys(ty)), span_json(tcx, tcx.def_span(did)));
            // statics are global state: `static mut`, or a static whose type is not Freeze (interior mutability)
            if let DefKind::Static { mutability, .. } = kind {
                let frozen = ty.is_freeze(tcx, TypingEnv::fully_monomorphized());
                let _ = write!(entry, ",\"static\":true,\"mutable\":{},\"freeze\":{}", mutability.is_mut(), frozen);
            }
            let val = if matches!(kind, DefKind::Static { .. }) { tcx.eval_static_initializer(did).ok().map(|a| (Some(a), None)) } else { tcx.const_eval_poly(did).ok().map(|v| (None, Some(v))) };
            match val {
                Some((Some(alloc), _)) => {
                    let a = alloc.inner();
                    if a.len() <= (1 << 20) {
                        let b = a.inspect_with_uninit_and_ptr_outside_interpreter(0..a.len());
                        let _ = write!(entry, ",\"bytes\":\"{}\"", hex(b));
                        if !a.provenance().ptrs().is_empty() && a.len() <= 65536 {
                            let _ = write!(entry, ",\"relocs\":{}", relocs_json(tcx, a, 0));
                        }
                    }
                }
                Some((None, Some(cv))) => match cv {
                    ConstValue::Scalar(mir::interpret::Scalar::Int(s)) => {
                        let _ = write!(entry, ",\"bits\":\"{}\",\"size\":{}", s.to_bits(s.size()), s.size().bytes());
                    }
                    ConstValue::Scalar(mir::interpret::Scalar::Ptr(ptr, _)) => {
                        let (prov, off) = ptr.into_raw_parts();
                        if let Some(rustc_middle::mir::interpret::GlobalAlloc::Memory(a)) = tcx.try_get_global_alloc(prov.alloc_id()) {
                            let a = a.inner();
                            let o = off.bytes() as usize;
                            if o <= a.len() && a.len() <= (1 << 20) {
                                let b = a.inspect_with_uninit_and_ptr_outside_interpreter(o..a.len());
                                let _ = write!(entry, ",\"ptr_bytes\":\"{}\"", hex(b));
                            }
                        }
                    }
                    ConstValue::Indirect { alloc_id, offset } => {
                        if let Some(rustc_middle::mir::interpret::GlobalAlloc::Memory(a)) = tcx.try_get_global_alloc(alloc_id) {
                            let a = a.inner();
                            let o = offset.bytes() as usize;
                            if o <= a.len() && a.len() <= (1 << 20) {
                                let b = a.inspect_with_uninit_and_ptr_outside_interpreter(o..a.len());
                                let _ = write!(entry, ",\"bytes\":\"{}\"", hex(b));
                                if !a.provenance().ptrs().is_empty() && a.len() <= 65536 {
                                    let _ = write!(entry, ",\"relocs\":{}", relocs_json(tcx, a, o));
                                }
                            }
                        }
                    }
                    ConstValue::Slice { alloc_id, meta } => {
                        if let Some(rustc_middle::mir::interpret::GlobalAlloc::Memory(a)) = tcx.try_get_global_alloc(alloc_id) {
                            let a = a.inner();
                            let b = a.inspect_with_uninit_and_ptr_outside_interpreter(0..a.len());
                            let _ = write!(entry, ",\"bytes\":\"{}\",\"meta\":{}", hex(b), meta);
                        }
                    }
                    ConstValue::ZeroSized => entry.push_str(",\"zst\":true"),
                },
                _ => entry.push_str(",\"err\":true"),
            }
            entry.push('}');
            if !first {
                out.push(',');
            }
            first = false;
            out.push_str(&entry);
        }
        out.push_str("],\"adts\":[");
        // ---- adts
        let mut first = true;
        for id in tcx.hir_free_items() {
            let did = id.owner_id.to_def_id();
            let kind = tcx.def_kind(did);
            if !matches!(kind, DefKind::Struct | DefKind::Enum | DefKind::Union) {
                continue;
            }
            let def = tcx.adt_def(did);
            let generic = tcx.generics_of(did).requires_monomorphization(tcx);
            let mut e = format!("{{\"path\":{},\"kind\":{},\"generic\":{},\"span\":{},\"repr\":{},\"variants\":[", js(&dps(tcx, did)), js(&format!("{:?}", kind)), generic, span_json(tcx, tcx.def_span(did)), js(&format!("{:?}", def.repr().int)));
            for (vi, v) in def.variants().iter_enumerated() {
                if vi.as_usize() > 0 {
                    e.push(',');
                }
                let discr = if def.is_enum() { format!("{}", def.discriminant_for_variant(tcx, vi).val) } else { "0".to_string() };
                let _ = write!(e, "{{\"name\":{},\"discr\":\"{}\",\"fields\":[", js(&v.name.to_string()), discr);
                for (fi, f) in v.fields.iter().enumerate() {
                    if fi > 0 {
                        e.push(',');
                    }
                    let fty = tcx.type_of(f.did).instantiate_identity().skip_norm_wip();
                    let _ = write!(e, "{{\"name\":{},\"ty\":{},\"pub\":{}}}", js(&f.name.to_string()), js(&tys(fty)), f.vis.is_public());
                }
                e.push_str("]}");
            }
            e.push(']');
            if !generic {
                let ty = tcx.type_of(did).instantiate_identity().skip_norm_wip();
                let env = TypingEnv::fully_monomorphized();
                if let Ok(l) = tcx.layout_of(env.as_query_input(ty)) {
                    let _ = write!(e, ",\"size\":{},\"align\":{}", l.size.bytes(), l.align.abi.bytes());
                }
                let _ = write!(e, ",\"freeze\":{}", ty.is_freeze(tcx, env));
            }
            e.push('}');
            if !first {
                out.push(',');
            }
            first = false;
            out.push_str(&e);
        }
        let _ = write!(out, "],\"stats\":{{\"bodies\":{},\"instances\":{}}}}}", nbodies, m.list.len());
        std::fs::File::create(&outp).unwrap().write_all(out.as_bytes()).unwrap();
        Compilation::Continue
    }
}

fn main() {
    let mut args: Vec<String> = std::env::args().collect();
    if args.len() > 1 && (args[1].ends_with("rustc") || args[1].contains("/rustc")) {
        args.remove(1);
    }
    rustc_driver::run_compiler(&args, &mut Cb);
}
