#!/usr/bin/env python3
"""regress.py [--from <verif-dir>] [Cxx ...] : run every mutation bank and every kept seeded change of the given
properties (default all) on scratch copies of a clean copy of /repo, in parallel; results in /tmp/regress/<Cxx>.json.
With --from the checks of a snapshot of /verif are used, so /verif itself can be edited meanwhile."""
import json, os, subprocess, sys, tempfile, shutil
from concurrent.futures import ThreadPoolExecutor

args = sys.argv[1:]
src = "/verif"
if "--from" in args:
    i = args.index("--from")
    src = args[i + 1]
    del args[i : i + 2]
props = args or [f"C{i:02d}" for i in range(1, 19)]
os.makedirs("/tmp/regress", exist_ok=True)
clean = tempfile.mkdtemp(prefix="pv-clean-")
subprocess.run(["/verif/tools/clean_copy.sh", clean], check=True)


def one(p):
    env = dict(os.environ, PV_MUT_REPO=clean, PV_JOBS=os.environ.get("PV_JOBS", "5"))
    r = subprocess.run([sys.executable, "-m", "pv.mutants", p, "--seeds"], cwd=src, env=env, capture_output=True, text=True)
    res = []
    for ln in r.stdout.splitlines():
        if ln.startswith("{"):
            try:
                res.append(json.loads(ln))
            except Exception:
                pass
    json.dump(res, open(f"/tmp/regress/{p}.json", "w"), indent=1)
    bad = [x for x in res if x["status"] not in ("caught", "stale")]
    return p, len(res), bad


try:
    with ThreadPoolExecutor(max_workers=int(os.environ.get("PV_PROPS", "3"))) as ex:
        for p, n, bad in ex.map(one, props):
            print(p, n, "variants;", "ALL CAUGHT" if not bad else "NOT CAUGHT: " + json.dumps([(b["name"], b["status"]) for b in bad]), flush=True)
finally:
    shutil.rmtree(clean, ignore_errors=True)
