#!/bin/sh
# run_seed.sh <seed-name> : apply the kept seeded change to /repo, run its property's check, undo.
set -e
d=/verif/seeded/$1
prop=$(python3 -c "import json;print(json.load(open('$d/meta.json'))['property'])")
git -C /repo apply $d/patch.diff
(cd /verif && PV_NO_EVIDENCE=1 ./check $prop | grep -E "^REPORT|^\[C" | cut -c1-220) || true
git -C /repo checkout -- .
