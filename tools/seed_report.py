#!/usr/bin/env python3
"""Run every kept seeded change against its property's check (apply to /repo, check, undo) and write seeded/RESULTS.json."""
import json, os, subprocess, sys
V = "/verif"
out = {}
names = sorted(os.listdir(os.path.join(V, "seeded")))
only = sys.argv[1:]
for n in names:
    d = os.path.join(V, "seeded", n)
    if not os.path.isdir(d) or (only and not any(o in n for o in only)):
        continue
    meta = json.load(open(os.path.join(d, "meta.json")))
    prop = meta["property"]
    r = subprocess.run(["git", "-C", "/repo", "apply", os.path.join(d, "patch.diff")], capture_output=True, text=True)
    if r.returncode != 0:
        out[n] = dict(property=prop, status="patch no longer applies", err=r.stderr[-200:])
        continue
    try:
        p = subprocess.run([os.path.join(V, "check"), prop], cwd=V, env=dict(os.environ, PV_NO_EVIDENCE="1"), capture_output=True, text=True)
        keys = [l.split("key=")[1] for l in p.stdout.splitlines() if l.startswith("REPORT ")]
        out[n] = dict(property=prop, status="caught" if p.returncode == 1 and keys else "MISSED", exit=p.returncode, keys=keys[:6])
    finally:
        subprocess.run(["git", "-C", "/repo", "checkout", "--", "."])
    print(n, out[n]["status"], out[n].get("keys", [])[:3], flush=True)
if not only:
    json.dump(out, open(os.path.join(V, "seeded", "RESULTS.json"), "w"), indent=1)
print(sum(1 for v in out.values() if v["status"] == "caught"), "/", len(out), "caught")
