#!/bin/sh
# clean_copy.sh <dir> : scratch copy of /repo's sources (outside /repo and /verif), taken while no seeded change is applied to /repo
set -e
exec 9>/tmp/pv-repo.lock
flock 9
git -C /repo diff --quiet || { echo "/repo has uncommitted changes" >&2; exit 1; }
rm -rf "$1"; mkdir -p "$1"
for f in src Cargo.toml Cargo.lock tests examples benches resources; do [ -e /repo/$f ] && cp -r /repo/$f "$1"/; done
