#!/usr/bin/env python3
"""Developer aid (never run by a check): after a re-keying of sites, bring known_findings.jsonl in line with what the
check observes for one property: drop `known` entries observed 0 times, lower counts that are now smaller, and append
proposals (tools/gen_known.py) for the currently unlisted reports.  Only to be used after the unlisted reports have
been triaged by hand as the same genuine sites under new keys."""
import json, os, re, subprocess, sys

V = os.path.dirname(os.path.dirname(os.path.abspath(__file__)))
prop = sys.argv[1]
out = subprocess.run([os.path.join(V, "check"), prop], capture_output=True, text=True, env=dict(os.environ, PV_NO_EVIDENCE="1")).stdout
notes = {}
for l in out.splitlines():
    m = re.match(r"^NOTE: property=\S+ listed finding observed (\d+)/(\d+) times: (.*)$", l)
    if m:
        notes[m.group(3)] = int(m.group(1))
lines = open(os.path.join(V, "known_findings.jsonl")).read().splitlines()
keep = []
for l in lines:
    if not l.strip() or l.startswith("#"):
        keep.append(l)
        continue
    e = json.loads(l)
    if e["property"] == prop and e.get("status") == "known" and e["key"] in notes:
        if notes[e["key"]] == 0:
            print("drop", e["key"][:120])
            continue
        e["count"] = notes[e["key"]]
        print("lower", e["key"][:120], "->", e["count"])
        l = json.dumps(e)
    keep.append(l)
open(os.path.join(V, "known_findings.jsonl"), "w").write("\n".join(keep) + "\n")
prop_out = subprocess.run([sys.executable, os.path.join(V, "tools", "gen_known.py"), prop], capture_output=True, text=True).stdout
new = [json.loads(l) for l in prop_out.splitlines() if l.strip()]
# merge with existing entries of the same key (count increase)
lines = open(os.path.join(V, "known_findings.jsonl")).read().splitlines()
idx = {}
for i, l in enumerate(lines):
    if l.strip() and not l.startswith("#"):
        e = json.loads(l)
        if e["property"] == prop and e.get("status") == "known":
            idx[e["key"]] = i
for e in new:
    if e["key"] in idx:
        old = json.loads(lines[idx[e["key"]]])
        old["count"] += e["count"]
        lines[idx[e["key"]]] = json.dumps(old)
        print("raise", e["key"][:120], "->", old["count"])
    else:
        lines.append(json.dumps(e))
        print("add", e["key"][:120], "x", e["count"])
open(os.path.join(V, "known_findings.jsonl"), "w").write("\n".join(lines) + "\n")
