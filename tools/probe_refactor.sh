#!/bin/sh
# probe_refactor.sh <patch.diff> [props...] : apply a behaviour-preserving patch to /repo, run the given checks (default all), undo.
# Any REPORT is a false alarm of the machinery.
set -e
p=$1; shift
props=${@:-C01 C02 C03 C04 C05 C06 C07 C08 C09 C10 C11 C12 C13 C14 C15 C16 C17 C18}
git -C /repo apply "$p"
for c in $props; do (cd /verif && PV_NO_EVIDENCE=1 ./check $c 2>&1 | grep -E "^REPORT|^       |^\[C" | grep -v "^\[facts" | cut -c1-260) || true; done
git -C /repo checkout -- .
