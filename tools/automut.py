#!/usr/bin/env python3
"""automut.py [--n N] [--seed S] [--jobs J] [--lines a-b] <src/file.rs> <Cxx>[,Cyy...]

Gap finder (development aid, not part of any check): operator-based mutants of one source file, each applied to a
scratch copy of /repo (outside /repo and /verif), facts re-extracted, the named properties' checks run.  Prints the
SURVIVORS (tree compiles, every named check silent) for manual triage: each is either an equivalent mutant, a change
inside a clause listed as not decided, or a gap worth a rule.  Mutants that do not compile are dropped.
"""
import json, os, random, re, shutil, subprocess, sys, tempfile
from concurrent.futures import ThreadPoolExecutor

V = os.path.dirname(os.path.dirname(os.path.abspath(__file__)))
sys.path.insert(0, V)
from pv import mutants as MU  # noqa: E402
from pv import facts as F  # noqa: E402

OPS = [
    (r" < ", " <= "), (r" <= ", " < "), (r" > ", " >= "), (r" >= ", " > "), (r" == ", " != "), (r" != ", " == "),
    (r" \+ ", " - "), (r" - ", " + "), (r" \* ", " / "), (r" / ", " * "), (r" << ", " >> "), (r" >> ", " << "),
    (r" & ", " | "), (r" \| ", " & "), (r" \+= ", " -= "), (r" -= ", " += "), (r" && ", " || "), (r" \|\| ", " && "),
    (r"\btrue\b", "false"), (r"\bfalse\b", "true"), (r"\.min\(", ".max("), (r"\.max\(", ".min("),
    (r"\bbig\b", "little"), (r"\blittle\b", "big"), (r"\bcontinue\b", "break"), (r"\bbreak\b", "continue"),
    (r"\bSeekFrom::Start\b", "SeekFrom::Current"), (r"\.first\(\)", ".last()"), (r"\.last\(\)", ".first()"),
    (r"\bas u8\b", "as i8 as u8"), (r"\bu16\b", "i16"), (r"\bi16\b", "u16"), (r"\bu32\b", "i32"), (r"\.rev\(\)", ""),
    (r"\.to_lowercase\(\)", ".to_string()"), (r"\.skip\(1\)", ".skip(0)"), (r"\.\.=", ".."),
]
NUM = re.compile(r"(?<![\w.])(0x[0-9a-fA-F_]+|\d[\d_]*)(?![\w.]*\w)")


def candidates(path, lines=None):
    src = open(path).read().split("\n")
    out = []
    end = len(src)
    for i, l in enumerate(src):
        if l.strip().startswith("#[cfg(test)]"):
            end = i
            break
    for i in range(end):
        l = src[i]
        s = l.strip()
        if lines and not (lines[0] <= i + 1 <= lines[1]):
            continue
        if not s or s.startswith("//") or s.startswith("use ") or s.startswith("#![") or s.startswith("#[derive") or s.startswith("#[allow"):
            continue
        code = l.split("//")[0]
        for pat, rep in OPS:
            for m in re.finditer(pat, code):
                new = code[: m.start()] + rep + code[m.end():]
                out.append((i, l, new + l[len(code):], f"{pat.strip()}->{rep.strip()}"))
        for m in NUM.finditer(code):
            t = m.group(1)
            try:
                v = int(t.replace("_", ""), 0)
            except ValueError:
                continue
            for nv in (v + 1, v - 1):
                if nv < 0:
                    continue
                nt = hex(nv) if t.lower().startswith("0x") else str(nv)
                out.append((i, l, code[: m.start(1)] + nt + code[m.end(1):] + l[len(code):], f"{t}->{nt}"))
        # deletion of an effect statement
        if re.match(r"^[\w.:]+(\(|\.).*\)\??;$", s) and not s.startswith("let ") and not s.startswith("return"):
            out.append((i, l, l[: len(l) - len(l.lstrip())] + "/* deleted */", "delete-stmt"))
    return out


def run(file, props, cand, repo="/repo"):
    i, old, new, op = cand
    import fcntl
    with open("/tmp/pv-repo.lock", "w") as lk:  # never copy /repo while a seeded change is applied to it (tools/keep_seed.py)
        fcntl.flock(lk, fcntl.LOCK_EX)
        copy = MU.make_copy(repo)
    try:
        p = os.path.join(copy, file)
        src = open(p).read().split("\n")
        assert src[i] == old
        src[i] = new
        open(p, "w").write("\n".join(src))
        res = dict(line=i + 1, op=op, old=old.strip(), new=new.strip(), reports={})
        env = dict(os.environ, PV_NO_EVIDENCE="1")
        for k, prop in enumerate(props):
            c = subprocess.run([os.path.join(V, "check"), prop, "--repo", copy], env=env, stdout=subprocess.PIPE, stderr=subprocess.STDOUT, text=True, cwd=V)
            if "fact extraction failed" in c.stdout:
                res["status"] = "nocompile"
                return res
            keys = [ln.split("key=")[1][:80] for ln in c.stdout.splitlines() if ln.startswith("REPORT ")]
            if c.returncode != 0:
                res["reports"][prop] = keys[:3] or ["exit1"]
        res["status"] = "caught" if res["reports"] else "SURVIVED"
        return res
    finally:
        try:
            shutil.rmtree(os.path.join(F.CACHE, F.tree_hash(copy)), ignore_errors=True)
        except Exception:
            pass
        shutil.rmtree(copy, ignore_errors=True)


def main():
    a = sys.argv[1:]
    n, seed, jobs, lines = 40, 1, 4, None
    while a and a[0].startswith("--"):
        k = a.pop(0)
        v = a.pop(0)
        if k == "--n": n = int(v)
        elif k == "--seed": seed = int(v)
        elif k == "--jobs": jobs = int(v)
        elif k == "--lines": lines = tuple(int(x) for x in v.split("-"))
    file, props = a[0], a[1].split(",")
    cands = candidates(os.path.join("/repo", file), lines)
    random.Random(seed).shuffle(cands)
    cands = cands[:n]
    print(f"# {file}: {len(cands)} mutants sampled; checks {props}", flush=True)
    with ThreadPoolExecutor(max_workers=jobs) as ex:
        for r in ex.map(lambda c: run(file, props, c), cands):
            print(json.dumps(r), flush=True)


if __name__ == "__main__":
    main()
