#!/usr/bin/env python3
"""probe_results.py <probe_all output> : store what the false-alarm probe run reported per refactoring patch in
refactors/RESULTS.json (silent, or the rule families that alarmed), for the table in DESIGN.md."""
import json, os, re, sys

V = os.path.dirname(os.path.dirname(os.path.abspath(__file__)))
out = {}
cur = None
for ln in open(sys.argv[1]):
    m = re.match(r"^===== .*/refactors/([^/]+)/patch.diff\s*(OK \(silent\))?", ln)
    if m:
        cur = m.group(1)
        out[cur] = dict(status="silent" if m.group(2) else "alarm", reports=[])
        continue
    m = re.match(r"^\s+(C\d\d) x(\d+): C\d\d rule=(\S+) .*? key=(\S+)", ln)
    if m and cur:
        fam = f"{m.group(1)} {m.group(3)}"
        if fam not in out[cur]["reports"]:
            out[cur]["reports"].append(fam)
json.dump(out, open(os.path.join(V, "refactors", "RESULTS.json"), "w"), indent=1)
print(sum(1 for v in out.values() if v["status"] == "silent"), "/", len(out), "silent")
