#!/usr/bin/env python3
"""probe_all.py <patch.diff>... : for each behaviour-preserving patch, make a scratch copy of /repo with the patch applied
(under /tmp), run every claimed check against the copy and print the REPORT lines (= false alarms).  Parallel."""
import json, os, subprocess, sys, tempfile, shutil
from concurrent.futures import ThreadPoolExecutor

V = os.path.dirname(os.path.dirname(os.path.abspath(__file__)))
PROPS = [f"C{i:02d}" for i in range(1, 19)]


def one(patch):
    patch = os.path.abspath(patch)
    d = tempfile.mkdtemp(prefix="pv-probe-")
    try:
        r = subprocess.run([os.path.join(V, "tools", "probe_copy.sh"), patch, d], capture_output=True, text=True)
        if r.returncode != 0:
            return patch, {"error": [(r.stderr + r.stdout)[-300:]]}
        out = {}
        env = dict(os.environ, PV_NO_EVIDENCE="1")
        props = PROPS
        if os.environ.get("PV_PROBE_FOCUS"):
            # quick pass: the patch's own property, its file-sharing neighbours and the two crate-wide PANIC properties
            own = os.path.basename(os.path.dirname(patch)).split("-")[0]
            nb = {"C01": ["C12", "C15"], "C02": ["C03"], "C03": ["C04", "C02"], "C04": ["C03"], "C10": ["C12"], "C12": ["C10", "C01"], "C15": ["C01"], "C06": ["C07"], "C07": ["C06"], "C05": ["C08"], "C08": ["C05"]}
            props = sorted({own, "C17", "C18", *nb.get(own, [])} & set(PROPS))
        for p in props:
            c = subprocess.run([os.path.join(V, "check"), p, "--repo", d], capture_output=True, text=True, env=env, cwd=V)
            reps = [l for l in c.stdout.splitlines() if l.startswith("REPORT ")]
            if c.returncode != 0 or reps:
                dets = []
                lines = c.stdout.splitlines()
                for i, l in enumerate(lines):
                    if l.startswith("REPORT "):
                        dets.append(l[7:200] + " :: " + (lines[i + 1].strip()[:200] if i + 1 < len(lines) else ""))
                out[p] = dets or [c.stdout[-300:]]
        return patch, out
    finally:
        shutil.rmtree(d, ignore_errors=True)


def main():
    import glob

    patches = sys.argv[1:] or sorted(glob.glob(os.path.join(V, "refactors", "*", "patch.diff")))
    with ThreadPoolExecutor(max_workers=int(os.environ.get("PV_JOBS", "4"))) as ex:
        for patch, out in ex.map(one, patches):
            print("=====", patch, "OK (silent)" if not out else "")
            for p, dets in out.items():
                seen = {}
                for d in dets:
                    k = d.split(" :: ")[0].split("key=")[-1].split("|")[0:2]
                    seen.setdefault(tuple(k), []).append(d)
                for k, ds in seen.items():
                    print(f"   {p} x{len(ds)}: {ds[0][:330]}")


if __name__ == "__main__":
    main()
