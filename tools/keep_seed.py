#!/usr/bin/env python3
"""Confirm a seeded change independently and keep it under /verif/seeded/<name>/.

usage: keep_seed.py <name> <property> <src-dir-with patch.diff seed_demo.rs meta.json>
In a scratch worktree of /repo HEAD (outside /repo and /verif, removed afterwards):
  1. demo passes on the unmodified tree      2. patch applies, crate builds, `cargo test --lib` passes (flaky patch::tests::test_invalid ignored)
  3. demo fails with the patch               4. the property's check is run against /repo with the patch applied (then undone)
"""
import json, os, shutil, subprocess, sys, tempfile

name, prop, src = sys.argv[1], sys.argv[2], sys.argv[3]
VERIF = "/verif"
wt = tempfile.mkdtemp(prefix="seedwt-")
os.rmdir(wt)
ran = []
def sh(cmd, cwd=None, env=None):
    p = subprocess.run(cmd, shell=True, cwd=cwd, env=env, stdout=subprocess.PIPE, stderr=subprocess.STDOUT, text=True)
    return p.returncode, p.stdout
try:
    sh(f"git -C /repo worktree add -q --detach {wt} HEAD")
    env = dict(os.environ, CARGO_TARGET_DIR=os.path.join(wt, "target"), CARGO_NET_OFFLINE="true")
    shutil.copy(os.path.join(src, "seed_demo.rs"), os.path.join(wt, "tests", "seed_demo.rs"))
    rc0, out0 = sh("cargo test --offline --test seed_demo 2>&1 | tail -5", wt, env)
    demo_clean = "test result: ok" in out0
    ran.append(f"demo on unmodified tree: {'passes' if demo_clean else 'FAILS'}")
    rc, out = sh(f"git apply {os.path.join(src, 'patch.diff')}", wt)
    applies = rc == 0
    ran.append(f"git apply patch.diff: {'ok' if applies else 'FAILED ' + out[-300:]}")
    rc1, out1 = sh("cargo test --offline --lib 2>&1 | tail -15", wt, env)
    failed = [l for l in out1.splitlines() if l.strip().startswith("test ") and "FAILED" in l] + [l.strip() for l in out1.splitlines() if l.startswith("    ") and "::" in l]
    # BASELINE.json lists patch::tests::test_invalid and patch::tests::test_add_file_op as flaky (shared temp dir race)
    failed = sorted({l.strip() for l in failed if "patch::tests::test_invalid" not in l and "patch::tests::test_add_file_op" not in l and not l.startswith("test result")})
    suite_ok = ("test result: ok" in out1 or ("test result: FAILED" in out1 and not failed)) and "could not compile" not in out1
    ran.append(f"cargo test --offline --lib with the change: {'passes (flaky patch::tests::test_invalid ignored)' if suite_ok else 'FAILS ' + str(failed)}")
    rc2, out2 = sh("cargo test --offline --test seed_demo 2>&1 | tail -5", wt, env)
    demo_mut = "test result: ok" in out2
    ran.append(f"demo with the change: {'passes (NOT a breaking change)' if demo_mut else 'fails as intended'}")
    ok = demo_clean and applies and suite_ok and not demo_mut
    # run our check against /repo with the patch applied
    detected = None
    if ok:
        import fcntl
        lock = open("/tmp/pv-repo.lock", "w")
        fcntl.flock(lock, fcntl.LOCK_EX)  # one seeded change in /repo at a time
        rc, out = sh(f"git -C /repo apply {os.path.join(src, 'patch.diff')}")
        try:
            if rc == 0:
                rcc, outc = sh(f"PV_NO_EVIDENCE=1 ./check {prop}", os.environ.get("KEEP_CHECK_DIR", VERIF))
                keys = [l.split("key=")[1] for l in outc.splitlines() if l.startswith("REPORT ")]
                detected = dict(exit=rcc, keys=keys[:8])
                ran.append(f"./check {prop} on /repo with the change applied: exit {rcc}, reports {keys[:4]}")
        finally:
            sh("git -C /repo checkout -- .")
            fcntl.flock(lock, fcntl.LOCK_UN)
    print(json.dumps(dict(name=name, confirmed=ok, detected=detected, ran=ran), indent=1))
    if ok:
        dst = os.path.join(VERIF, "seeded", name)
        os.makedirs(dst, exist_ok=True)
        shutil.copy(os.path.join(src, "patch.diff"), dst)
        shutil.copy(os.path.join(src, "seed_demo.rs"), dst)
        meta = {}
        try:
            meta = json.load(open(os.path.join(src, "meta.json")))
        except Exception:
            pass
        meta.update(property=prop, confirmed_by_main=ran, base_commit=subprocess.check_output("git -C /repo rev-parse --short HEAD", shell=True, text=True).strip(), detected_by=detected)
        json.dump(meta, open(os.path.join(dst, "meta.json"), "w"), indent=1)
finally:
    sh(f"git -C /repo worktree remove --force {wt}")
    shutil.rmtree(wt, ignore_errors=True)
