// Demonstration of a genuine defect (C09): item ids that share bits with the 1,000,000 marker do not survive
// write -> read.  The marker was applied with `|` and stripped with `& !`, which is an inverse pair only for ids
// that have none of the marker's bits (6, 9, 14, 16..19) set.
use physis::gearsets::{GearSets, GearSlotType};

#[test]
fn item_ids_survive_a_round_trip() {
    let mut d = std::path::PathBuf::from(env!("CARGO_MANIFEST_DIR"));
    d.push("resources/tests/gearsets/simple.dat");
    let bytes = std::fs::read(d).unwrap();
    let mut sets = GearSets::from_existing(&bytes).unwrap();
    for id in [64u32, 100, 512, 16384, 30000, 5269, 1_000_064] {
        {
            let set = sets.gearsets[0].as_mut().unwrap();
            let slot = set.slots.get_mut(&GearSlotType::MainHand).unwrap();
            slot.id = id;
        }
        let written = sets.write_to_buffer().unwrap();
        let again = GearSets::from_existing(&written).unwrap();
        let got = again.gearsets[0].as_ref().unwrap().slots.get(&GearSlotType::MainHand).map(|s| s.id);
        assert_eq!(got, Some(id), "item id {id} was written and read back as {got:?}");
    }
}
