// C07: add_shape_mesh appends the replacing vertices to the part but left Mesh.vertex_count unchanged, so the header
// recomputed by update_headers() sized the vertex section for the old count: the written file re-parses without the
// added vertices (and the extra vertices are written over whatever follows the mesh's stream).
use physis::model::{MDL, NewShapeValue, Vertex};

#[test]
fn added_shape_vertices_survive_write_and_parse() {
    let mut d = std::path::PathBuf::from(env!("CARGO_MANIFEST_DIR"));
    d.push("resources/tests/c0201e0038_top_zeroed.mdl");
    let bytes = std::fs::read(d).unwrap();
    let mut mdl = MDL::from_existing(&bytes).unwrap();
    mdl.remove_shape_meshes();
    let before = mdl.lods[0].parts[0].vertices.len();
    let v = Vertex { position: [1.0, 2.0, 3.0], ..Default::default() };
    mdl.add_shape_mesh(0, 0, 0, 0, &[NewShapeValue { base_index: 0, replacing_vertex: v }]);
    assert_eq!(mdl.lods[0].parts[0].vertices.len(), before + 1);
    let written = mdl.write_to_buffer().unwrap();
    let again = MDL::from_existing(&written).expect("the written model must parse");
    assert_eq!(again.lods[0].parts[0].vertices.len(), before + 1, "the vertex added by add_shape_mesh is not in the written model");
    assert_eq!(again.lods[0].parts[0].vertices[before].position, [1.0, 2.0, 3.0]);
}
