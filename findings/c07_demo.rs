use std::fs::read;
#[test]
fn roundtrip_model_data() {
    let mut d = std::path::PathBuf::from(env!("CARGO_MANIFEST_DIR"));
    d.push("resources/tests/c0201e0038_top_zeroed.mdl");
    let orig = read(&d).unwrap();
    let mdl = physis::model::MDL::from_existing(&orig).unwrap();
    let written = mdl.write_to_buffer().unwrap();
    println!("DEMO len orig={} written={}", orig.len(), written.len());
    let first_diff = orig.iter().zip(written.iter()).position(|(a,b)| a!=b);
    println!("DEMO first differing byte: {:?}", first_diff);
    let re = physis::model::MDL::from_existing(&written);
    match re { Some(m2) => { println!("DEMO reparsed model_data equal: {}", m2.model_data == mdl.model_data); assert!(m2.model_data == mdl.model_data); }, None => { println!("DEMO reparse failed"); panic!("reparse failed"); } }
}
