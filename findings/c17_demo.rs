use std::panic::catch_unwind;
fn panics<F: FnOnce() + std::panic::UnwindSafe>(name: &str, f: F) {
    let r = catch_unwind(f);
    println!("DEMO {name}: {}", if r.is_err() { "PANICS" } else { "ok" });
}
#[test]
fn demo() {
    panics("chatlog-empty", || { physis::log::ChatLog::from_existing(&[]); });
    panics("frontier-missing", || { physis::execlookup::extract_frontier_url("/nonexistent/launcher.exe"); });
    panics("cfg-lone-bracket", || { physis::cfg::ConfigFile::from_existing(b"<\r\n"); });
    panics("patchlist-empty", || { physis::patchlist::PatchList::from_string(physis::patchlist::PatchListType::Boot, ""); });
    panics("patchlist-short-row", || { physis::patchlist::PatchList::from_string(physis::patchlist::PatchListType::Boot, "a\r\nb\r\nc\r\nd\r\ne\r\n1\t2\r\nx\r\ny"); });
    // gearsets: magic 0x006d0005 LE, max_size, content_size=0, pad 4, 0xFF
    let mut g = vec![]; g.extend_from_slice(&0x006d0005u32.to_le_bytes()); g.extend_from_slice(&0u32.to_le_bytes()); g.extend_from_slice(&0u32.to_le_bytes()); g.extend_from_slice(&[0;4]); g.push(0xFF);
    panics("gearsets-content-size-0", move || { physis::gearsets::GearSets::from_existing(&g); });
    // fiin with invalid utf8 name
    let mut f = vec![]; f.extend_from_slice(b"FileInfo"); f.extend_from_slice(&[0;16]); f.extend_from_slice(&1024i32.to_le_bytes()); f.extend_from_slice(&96i32.to_le_bytes()); f.extend_from_slice(&[0;992]);
    f.extend_from_slice(&5i32.to_le_bytes()); f.extend_from_slice(&[0;4]); f.extend_from_slice(&[0xFF;64]); f.extend_from_slice(&[0;24]);
    panics("fiin-invalid-utf8", move || { physis::fiin::FileInfo::from_existing(&f); });
    // zipatch: header + SQPK AddData before TargetInfo
    let dir = std::env::temp_dir().join("verif_c17_demo"); let _ = std::fs::create_dir_all(&dir);
    let mut p = vec![0x91u8]; p.extend_from_slice(b"ZIPATCH"); p.extend_from_slice(&[0x0d,0x0a,0x1a,0x0a]);
    // chunk: size BE, "SQPK", inner size BE, 'A', 3 pad, main_id BE u16, sub_id, file_id u32, block_offset u32, block_number u32, block_delete u32, data
    let mut body = vec![]; body.extend_from_slice(b"SQPK"); body.extend_from_slice(&0u32.to_be_bytes()); body.push(b'A'); body.extend_from_slice(&[0;3]);
    body.extend_from_slice(&0u16.to_be_bytes()); body.extend_from_slice(&0u16.to_be_bytes()); body.extend_from_slice(&0u32.to_be_bytes());
    body.extend_from_slice(&0u32.to_be_bytes()); body.extend_from_slice(&0u32.to_be_bytes()); body.extend_from_slice(&0u32.to_be_bytes());
    p.extend_from_slice(&(body.len() as u32).to_be_bytes()); p.extend_from_slice(&body); p.extend_from_slice(&[0;4]);
    let pp = dir.join("a.patch"); std::fs::write(&pp, &p).unwrap();
    let d2 = dir.clone();
    panics("zipatch-A-before-T", move || { let r = physis::patch::ZiPatch::apply(d2.to_str().unwrap(), pp.to_str().unwrap()); println!("   result {:?}", r.is_ok()); });
    // truncated patch right after header
    let mut q = vec![0x91u8]; q.extend_from_slice(b"ZIPATCH"); q.extend_from_slice(&[0x0d,0x0a,0x1a,0x0a]);
    let qq = dir.join("b.patch"); std::fs::write(&qq, &q).unwrap();
    let d3 = dir.clone();
    panics("zipatch-truncated", move || { let r = physis::patch::ZiPatch::apply(d3.to_str().unwrap(), qq.to_str().unwrap()); println!("   result ok={:?}", r.is_ok()); });
}
