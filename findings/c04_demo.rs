use std::fs;
#[test]
fn create_then_apply() {
    let root = std::env::temp_dir().join("verif_c04_demo");
    let _ = fs::remove_dir_all(&root);
    let a = root.join("a"); let b = root.join("b"); let t = root.join("target");
    for d in [&a,&b,&t] { fs::create_dir_all(d.join("sub")).unwrap(); }
    // both: same content, both: changed, only A, only B
    fs::write(a.join("same.txt"), b"same").unwrap(); fs::write(b.join("same.txt"), b"same").unwrap();
    fs::write(a.join("sub/changed.txt"), b"old content").unwrap(); fs::write(b.join("sub/changed.txt"), b"new content!").unwrap();
    fs::write(a.join("only_a.txt"), b"aaa").unwrap();
    fs::write(b.join("sub/only_b.txt"), b"bbb").unwrap();
    for f in ["same.txt","sub/changed.txt","only_a.txt"] { fs::write(t.join(f), fs::read(a.join(f)).unwrap()).unwrap(); }
    let patch = physis::patch::ZiPatch::create(a.to_str().unwrap(), b.to_str().unwrap()).unwrap();
    let pp = root.join("p.patch"); fs::write(&pp, &patch).unwrap();
    physis::patch::ZiPatch::apply(t.to_str().unwrap(), pp.to_str().unwrap()).unwrap();
    println!("DEMO same.txt exists: {}", t.join("same.txt").exists());
    println!("DEMO changed: {:?}", fs::read(t.join("sub/changed.txt")).map(|v| String::from_utf8_lossy(&v).to_string()));
    println!("DEMO only_a exists: {}", t.join("only_a.txt").exists());
    println!("DEMO only_b: {:?}", fs::read(t.join("sub/only_b.txt")).map(|v| String::from_utf8_lossy(&v).to_string()));
    assert!(t.join("same.txt").exists());
    assert_eq!(fs::read(t.join("sub/changed.txt")).unwrap(), b"new content!");
    assert!(!t.join("only_a.txt").exists());
    assert_eq!(fs::read(t.join("sub/only_b.txt")).unwrap(), b"bbb");
}
