// Demo of the defect repaired by the /repo commit "fix: HavokObjectType::member_count counts the members of every ancestor"
// (place under tests/ of the crate; bone_struct_with_members_in_two_ancestors panics at
// binary_tag_file_reader.rs `data_existence[member_index]` before the fix).  Property C16: parsing a skeleton returns every bone's name, parent index and
// reference pose, for Havok tag files with arbitrary type tables.

use physis::skeleton::Skeleton;

// Havok value type codes
const INT: i32 = 2;
const OBJECT: i32 = 8;
const STRING: i32 = 10;
const ARRAY: i32 = 0x10;
const ARRAY_INT: i32 = ARRAY | 2;
const ARRAY_VEC12: i32 = ARRAY | 6;
const ARRAY_OBJECT: i32 = ARRAY | 8;
const ARRAY_STRUCT: i32 = ARRAY | 9;

// tags
const TAG_FILE_INFO: i32 = 1;
const TAG_TYPE: i32 = 2;
const TAG_OBJECT_REMEMBER: i32 = 4;
const TAG_FILE_END: i32 = 7;

/// Minimal writer for the Havok binary tag file format (version 3).
struct TagWriter {
    out: Vec<u8>,
    strings: Vec<String>,
}

impl TagWriter {
    fn new() -> Self {
        let mut out = Vec::new();
        out.extend_from_slice(&0xCAB0_0D1Eu32.to_le_bytes());
        out.extend_from_slice(&0xD011_FACEu32.to_le_bytes());
        Self {
            out,
            // the two pre-defined strings
            strings: vec!["string".to_string(), String::new()],
        }
    }

    fn int(&mut self, v: i32) {
        let neg = v < 0;
        let mut u = v.unsigned_abs();
        let mut byte = (((u & 0x3f) as u8) << 1) | (neg as u8);
        u >>= 6;
        while u != 0 {
            self.out.push(byte | 0x80);
            byte = (u & 0x7f) as u8;
            u >>= 7;
        }
        self.out.push(byte);
    }

    fn string(&mut self, s: &str) {
        if let Some(index) = self.strings.iter().position(|x| x == s) {
            if index != 0 {
                self.int(-(index as i32));
                return;
            }
        }
        self.int(s.len() as i32);
        self.out.extend_from_slice(s.as_bytes());
        self.strings.push(s.to_string());
    }

    fn f32(&mut self, v: f32) {
        self.out.extend_from_slice(&v.to_le_bytes());
    }

    fn bits(&mut self, bits: &[bool]) {
        let mut bytes = vec![0u8; bits.len().div_ceil(8)];
        for (i, bit) in bits.iter().enumerate() {
            if *bit {
                bytes[i / 8] |= 1 << (i % 8);
            }
        }
        self.out.extend_from_slice(&bytes);
    }

    /// members: (name, type code, class name for object/struct members)
    fn type_def(&mut self, name: &str, parent: i32, members: &[(&str, i32, Option<&str>)]) {
        self.int(TAG_TYPE);
        self.string(name);
        self.int(0); // version
        self.int(parent);
        self.int(members.len() as i32);
        for (member_name, type_, class_name) in members {
            self.string(member_name);
            self.int(*type_);
            if let Some(class_name) = class_name {
                self.string(class_name);
            }
        }
    }
}

struct TestBone {
    name: &'static str,
    parent: i32,
    pose: [f32; 12],
}

fn bones() -> Vec<TestBone> {
    vec![
        TestBone {
            name: "n_root",
            parent: -1,
            pose: [
                0.0, 0.0, 0.0, 0.0, 0.0, 0.0, 0.0, 1.0, 1.0, 1.0, 1.0, 0.0,
            ],
        },
        TestBone {
            name: "n_hara",
            parent: 0,
            pose: [
                0.0, 0.875, -0.0625, 0.0, 0.5, -0.5, 0.5, 0.5, 1.0, 1.0, 1.0, 0.0,
            ],
        },
        TestBone {
            name: "j_kosi",
            parent: 1,
            pose: [
                0.125, -0.25, 0.5, 0.0, 0.0, 0.70703125, 0.0, 0.70703125, 1.0, 1.25, 0.75, 0.0,
            ],
        },
        TestBone {
            name: "j_sebo_a",
            parent: 1,
            pose: [
                -1.5, 2.0, 3.25, 0.0, 1.0, 0.0, 0.0, 0.0, 2.0, 2.0, 2.0, 0.0,
            ],
        },
    ]
}

/// Builds a tag file. When `base_has_members` is set the class hierarchy is
/// hkBaseObject { memSizeAndFlags } <- hkReferencedObject { referenceCount } <- hkaSkeleton / hkaAnimationContainer,
/// otherwise hkBaseObject is empty as in the files shipped by the game.
fn build_tag_file(base_has_members: bool, deep_bone: bool) -> Vec<u8> {
    let bones = bones();
    let n = bones.len() as i32;
    let mut w = TagWriter::new();

    w.int(TAG_FILE_INFO);
    w.int(3);

    // type table (indices start at 1, 0 is the built-in "object")
    if base_has_members {
        w.type_def("hkBaseObject", 0, &[("memSizeAndFlags", INT, None)]); // 1
    } else {
        w.type_def("hkBaseObject", 0, &[]); // 1
    }
    w.type_def("hkReferencedObject", 1, &[("referenceCount", INT, None)]); // 2
    w.type_def(
        "hkRootLevelContainerNamedVariant",
        0,
        &[
            ("name", STRING, None),
            ("className", STRING, None),
            ("variant", OBJECT, Some("hkReferencedObject")),
        ],
    ); // 3
    w.type_def(
        "hkRootLevelContainer",
        0,
        &[(
            "namedVariants",
            ARRAY_STRUCT,
            Some("hkRootLevelContainerNamedVariant"),
        )],
    ); // 4
    w.type_def("hkBoneBase0", 0, &[("a", INT, None)]); // 5
    w.type_def("hkBoneBase1", 5, &[("b", INT, None)]); // 6
    w.type_def(
        "hkaBone",
        if deep_bone { 6 } else { 0 },
        &[("name", STRING, None), ("lockTranslation", INT, None)],
    ); // 7
    w.type_def(
        "hkaSkeleton",
        2,
        &[
            ("name", STRING, None),
            ("parentIndices", ARRAY_INT, None),
            ("bones", ARRAY_STRUCT, Some("hkaBone")),
            ("referencePose", ARRAY_VEC12, None),
        ],
    ); // 6
    w.type_def(
        "hkaAnimationContainer",
        2,
        &[
            ("skeletons", ARRAY_OBJECT, Some("hkaSkeleton")),
            ("bindings", ARRAY_OBJECT, Some("hkaAnimationBinding")),
        ],
    ); // 7

    // inherited members come first in the presence bit field
    let inherited: Vec<bool> = if base_has_members {
        vec![false, false]
    } else {
        vec![false]
    };

    // object 1: root level container
    w.int(TAG_OBJECT_REMEMBER);
    w.int(4);
    w.bits(&[true]);
    w.int(1); // one named variant
    w.bits(&[true, true, true]);
    w.string("Merged Animation Container");
    w.string("hkaAnimationContainer");
    w.int(2); // -> object 2

    // object 2: animation container
    w.int(TAG_OBJECT_REMEMBER);
    w.int(9);
    let mut present = inherited.clone();
    present.extend_from_slice(&[true, false]);
    w.bits(&present);
    w.int(1); // one skeleton
    w.int(3); // -> object 3

    // object 3: the skeleton
    w.int(TAG_OBJECT_REMEMBER);
    w.int(8);
    let mut present = inherited.clone();
    present.extend_from_slice(&[true, true, true, true]);
    w.bits(&present);
    w.string("skeleton");
    // parentIndices
    w.int(n);
    w.int(2); // element width marker
    for bone in &bones {
        w.int(bone.parent);
    }
    // bones, stored as struct of arrays
    w.int(n);
    if deep_bone {
        w.bits(&[false, false, true, true]);
    } else {
        w.bits(&[true, true]);
    }
    for bone in &bones {
        w.string(bone.name);
    }
    w.int(0); // element width marker
    for _ in &bones {
        w.int(0);
    }
    // referencePose
    w.int(n);
    for bone in &bones {
        for v in bone.pose {
            w.f32(v);
        }
    }

    w.int(TAG_FILE_END);

    w.out
}

fn wrap_sklb_v2(havok: &[u8]) -> Vec<u8> {
    let mut out = Vec::new();
    out.extend_from_slice(&0x736B6C62i32.to_le_bytes());
    out.extend_from_slice(&0x3133_3030u32.to_le_bytes());
    out.extend_from_slice(&36u32.to_le_bytes()); // unk_offset
    out.extend_from_slice(&36u32.to_le_bytes()); // havok_offset
    out.extend_from_slice(&0u32.to_le_bytes()); // unk
    out.extend_from_slice(&101u32.to_le_bytes()); // body id
    out.extend_from_slice(&[0u8; 12]); // mapper body ids
    assert_eq!(out.len(), 36);
    out.extend_from_slice(havok);
    out
}

fn wrap_sklb_v1(havok: &[u8]) -> Vec<u8> {
    let mut out = Vec::new();
    out.extend_from_slice(&0x736B6C62i32.to_le_bytes());
    out.extend_from_slice(&0x3132_3030u32.to_le_bytes());
    out.extend_from_slice(&28u16.to_le_bytes()); // unk_offset
    out.extend_from_slice(&32u16.to_le_bytes()); // havok_offset
    out.extend_from_slice(&101u32.to_le_bytes()); // body id
    out.extend_from_slice(&[0u8; 12]); // mapper body ids
    assert_eq!(out.len(), 28);
    out.extend_from_slice(&[0u8; 4]); // gap before the payload
    out.extend_from_slice(havok);
    out
}

fn check(skeleton: &Skeleton) {
    let expected = bones();
    assert_eq!(skeleton.bones.len(), expected.len());
    for (got, want) in skeleton.bones.iter().zip(expected.iter()) {
        assert_eq!(got.name, want.name);
        assert_eq!(got.parent_index, want.parent);
        assert_eq!(got.position, [want.pose[0], want.pose[1], want.pose[2]]);
        assert_eq!(
            got.rotation,
            [want.pose[4], want.pose[5], want.pose[6], want.pose[7]]
        );
        assert_eq!(got.scale, [want.pose[8], want.pose[9], want.pose[10]]);
    }
}

#[test]
fn skeleton_with_empty_base_class() {
    // control: the common layout, hkBaseObject has no members
    let havok = build_tag_file(false, false);
    check(&Skeleton::from_existing(&wrap_sklb_v2(&havok)).unwrap());
    check(&Skeleton::from_existing(&wrap_sklb_v1(&havok)).unwrap());
}

#[test]
fn skeleton_with_members_in_every_ancestor() {
    // the type table is arbitrary: here both ancestors of hkaSkeleton carry a member
    let havok = build_tag_file(true, false);
    check(&Skeleton::from_existing(&wrap_sklb_v2(&havok)).unwrap());
    check(&Skeleton::from_existing(&wrap_sklb_v1(&havok)).unwrap());
}

#[test]
fn bone_struct_with_members_in_two_ancestors() {
    // the struct-of-arrays element type inherits one member from each of two ancestors
    let havok = build_tag_file(false, true);
    check(&Skeleton::from_existing(&wrap_sklb_v2(&havok)).unwrap());
}
