// Demonstration of a genuine defect (C07): update_headers() computed runtime_size (and from it every LOD data offset)
// from the header's *old* shape counts and refreshed those counts only afterwards, so the file written right after
// remove_shape_meshes() announces a runtime block / data offsets that do not match what is written.
use physis::model::MDL;

fn u32_at(b: &[u8], o: usize) -> u32 {
    u32::from_le_bytes([b[o], b[o + 1], b[o + 2], b[o + 3]])
}

#[test]
fn header_is_self_consistent_after_removing_shape_meshes() {
    let mut d = std::path::PathBuf::from(env!("CARGO_MANIFEST_DIR"));
    d.push("resources/tests/c0201e0038_top_zeroed.mdl");
    let bytes = std::fs::read(d).unwrap();
    let mut mdl = MDL::from_existing(&bytes).unwrap();
    let had = "some";
    mdl.remove_shape_meshes();
    let written = mdl.write_to_buffer().unwrap();
    // file header: version, stack_size, runtime_size, ... ; the runtime size announced must be the size of the
    // runtime block that was written (the model data as it now is)
    let announced = u32_at(&written, 8);
    assert_eq!(announced, mdl.model_data.calculate_runtime_size(), "runtime_size is stale after remove_shape_meshes (sample had {had} shape meshes)");
    // vertex data of LOD 0 starts right after header + stack + runtime blocks
    let stack = u32_at(&written, 4);
    let v0 = u32_at(&written, 16);
    assert_eq!(v0, 0x44 + stack + announced, "LOD 0 vertex data offset does not follow the runtime block");
    let again = MDL::from_existing(&written).expect("the written model must parse");
    assert_eq!(again.lods[0].parts.len(), mdl.lods[0].parts.len());
    assert_eq!(again.lods[0].parts[0].vertices.len(), mdl.lods[0].parts[0].vertices.len());
    assert_eq!(again.lods[0].parts[0].indices, mdl.lods[0].parts[0].indices);
}
